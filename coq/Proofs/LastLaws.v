(** C11: `last(f)` and `nth(n; f)`.  `last(f)` yields the last output of a stream that ends normally, nothing for an empty
    one, and is ended by the first error, break or halt inside the stream (the items before it are not delivered): it is
    `[f] | if length == 0 then empty else .[-1] end`, construct for construct.  `nth(n; f)` is defined as
    `first(skip(n; f))` (defs.jq): the n-th output counted from 0, nothing when the stream is shorter, the first for n <= 0. *)
From Coq Require Import ZArith Bool List Lia.
From JaqV Require Import Base.Bytes Base.Stream Val.Num Val.Val Val.Err Val.Arith Core.Natives Proofs.StreamLaws.
Import ListNotations.
Local Open Scope Z_scope.

Lemma last_go_collect {A} (s : str A) : forall cur,
  last_go cur s = let '(ys, t) := collect s in
                  match t with
                  | FEnd => match rev ys with y :: _ => sone y | [] => match cur with Some x => sone x | None => SNil end end
                  | _ => fin_str t
                  end.
Proof.
  induction s as [|x k IH|e| |]; intros cur; try reflexivity.
  cbn [last_go collect]. rewrite (IH tt (Some x)). destruct (collect (k tt)) as [ys t]. destruct t; try reflexivity.
  cbn [rev]. destruct (rev ys) as [|y r]; reflexivity.
Qed.

(** `last` of a stream: decided by how the stream ends *)
Theorem last_spec {A} (s : str A) :
  last_s s = let '(ys, t) := collect s in
             match t with
             | FEnd => match rev ys with y :: _ => sone y | [] => SNil end
             | _ => fin_str t
             end.
Proof. unfold last_s. rewrite last_go_collect. reflexivity. Qed.

(** it is what collecting the stream into an array and taking the last element yields *)
Theorem last_is_collect_then_last {A} (s : str A) :
  last_s s = collect_then s (fun ys => match rev ys with y :: _ => sone y | [] => SNil end).
Proof. rewrite last_spec. unfold collect_then. destruct (collect s) as [ys t]. reflexivity. Qed.

Corollary last_of_outputs {A} (ys : list A) y : last_s (of_list (ys ++ [y])) = sone y.
Proof.
  rewrite last_spec. assert (C : forall l : list A, collect (of_list l) = (l, FEnd)).
  { induction l as [|a l IHl]; [reflexivity|]. cbn [of_list collect]. rewrite IHl. reflexivity. }
  rewrite C. rewrite rev_app_distr. reflexivity.
Qed.

Corollary last_stops_at_the_first_error {A} (ys : list A) e (rest : unit -> str A) :
  last_s (sapp (of_list ys) (fun _ => sapp (SExn e) rest)) = SExn e.
Proof.
  rewrite last_spec. cbn [sapp].
  assert (C : collect (sapp (of_list ys) (fun _ => SExn e)) = (ys, FExn e)).
  { induction ys as [|a l IHl]; [reflexivity|]. cbn [of_list sapp collect]. rewrite IHl. reflexivity. }
  rewrite C. reflexivity.
Qed.

(** ** nth(n; f) = first(skip(n; f)) *)

Lemma skip_go_list {A} (ys : list A) : forall k, in_isize k = true -> 0 <= k ->
  skip_go (vint k) (of_list ys) = of_list (skipn (Z.to_nat k) ys).
Proof.
  induction ys as [|x r IH]; intros k Hk H0.
  - cbn [of_list skip_go]. rewrite val_cmp_int. rewrite skipn_nil.
    destruct (Z.compare_spec k 0) as [E|E|E]; cbn [negb]; try reflexivity;
      try (rewrite vsub_int by (apply in_isize_pred; [assumption|lia]); reflexivity).
  - cbn [of_list skip_go]. rewrite val_cmp_int.
    destruct (Z.compare_spec k 0) as [E|E|E]; cbn [negb].
    + subst k. reflexivity.
    + lia.
    + rewrite vsub_int by (apply in_isize_pred; [assumption|lia]).
      rewrite IH by (try apply in_isize_pred; try assumption; lia).
      replace (Z.to_nat k) with (S (Z.to_nat (k - 1))) by lia. reflexivity.
Qed.

Lemma first_skipn {A} (ys : list A) : forall n,
  first_s (of_list (skipn n ys)) = match nth_error ys n with Some y => sone y | None => SNil end.
Proof.
  induction ys as [|x r IH]; intros n; [destruct n; reflexivity|].
  destruct n as [|n]; [reflexivity|]. cbn [skipn nth_error]. apply IH.
Qed.

(** the n-th output counted from 0; nothing when the stream has no more than n outputs; the first output for n <= 0 *)
Theorem nth_def {A} (ys : list A) k : in_isize k = true ->
  first_s (skip (vint k) (of_list ys))
  = if k <=? 0 then first_s (of_list ys)
    else match nth_error ys (Z.to_nat k) with Some y => sone y | None => SNil end.
Proof.
  intros Hk. unfold skip. rewrite val_leb_int. destruct (Z.leb_spec k 0) as [L|L]; [reflexivity|].
  rewrite skip_go_list by (try assumption; lia). apply first_skipn.
Qed.

Example nth_examples :
  first_s (skip (vint 3) (of_list [vint 1; vint 2; vint 3])) = SNil
  /\ first_s (skip (vint 2) (of_list [vint 1; vint 2; vint 3])) = sone (vint 3)
  /\ first_s (skip (vint (-1)) (of_list [vint 7])) = sone (vint 7)
  /\ last_s (of_list [vint 1; vint 2]) = sone (vint 2)
  /\ last_s (SCons (vint 1) (fun _ => SExn (XErr (EOther 1)))) = SExn (XErr (EOther 1)).
Proof. repeat split. Qed.

(** ** isempty(g) = first((g | false), true) (its definition in defs.jq) *)
Definition isempty_s {A} (s : str A) : str val :=
  first_s (sapp (smap (fun _ => Bool false) s) (fun _ => sone (Bool true))).

(** true for a stream without outputs, false as soon as there is a first output - whatever follows it: an error, a halt, more
    outputs or no end at all -, and the stream's own failure when it fails before its first output *)
Theorem isempty_spec {A} (s : str A) :
  isempty_s s = match s with
                | SNil => sone (Bool true)
                | SCons _ _ => sone (Bool false)
                | SExn e => SExn e
                | SBot => SBot
                | SUnk => SUnk
                end.
Proof. destruct s; reflexivity. Qed.

(** ** any and all *)
(** all(g; cond) = isempty(g | cond and empty), any(g; cond) = isempty(g | cond or empty) | not (defs.jq), on the stream of
    the truth values of cond: `b and empty` yields false for a false b and nothing for a true one, `b or empty` yields true for
    a true b and nothing for a false one *)
Definition all_s (s : str bool) : str val := isempty_s (sbind s (fun b => if b then SNil else sone (Bool false))).
Definition any_s (s : str bool) : str val :=
  sbind (isempty_s (sbind s (fun b => if b then sone (Bool true) else SNil))) (fun v => sone (Bool (negb (match v with Bool true => true | _ => false end)))).

Lemma all_of_list bs : all_s (of_list bs) = sone (Bool (forallb (fun b => b) bs)).
Proof.
  unfold all_s. induction bs as [|b bs IH]; [reflexivity|]. cbn [of_list sbind forallb]. destruct b; cbn [sapp andb]; [exact IH|reflexivity].
Qed.

Lemma any_of_list bs : any_s (of_list bs) = sone (Bool (existsb (fun b => b) bs)).
Proof.
  unfold any_s. induction bs as [|b bs IH]; [reflexivity|]. cbn [of_list sbind existsb]. destruct b; cbn [sapp orb]; [reflexivity|exact IH].
Qed.

(** they stop at the first deciding value: what follows it - an error, a halt, no end - is not looked at *)
Lemma all_stops_at_the_first_false n (rest : unit -> str bool) :
  all_s (sapp (of_list (repeat true n ++ [false])) rest) = sone (Bool false).
Proof. unfold all_s. induction n as [|n IH]; [reflexivity|]. cbn [repeat app of_list sapp sbind]. exact IH. Qed.

Lemma any_stops_at_the_first_true n (rest : unit -> str bool) :
  any_s (sapp (of_list (repeat false n ++ [true])) rest) = sone (Bool true).
Proof. unfold any_s. induction n as [|n IH]; [reflexivity|]. cbn [repeat app of_list sapp sbind]. exact IH. Qed.
