(** Extraction of the executable models to OCaml. [ExtrOcamlBasic] only; [Z], [N], [positive],
    [nat], [byte] stay the extracted inductive types. Monolithic: one file [jaqmodel.ml]. *)
From Coq Require Import Extraction ExtrOcamlBasic.
From JaqV Require Import Base.F64 Base.Bytes Val.Num Val.Val Val.Utf8 Val.Err Val.Arith Val.Index
  Base.Stream Core.Syntax Core.Compile Core.Natives Core.Run Json.Write Json.Read Std.Natives Core.Eval Cli.Main Cli.Args Cli.Modules Parse.PrecClimb Parse.Lex.
Extraction Language OCaml.
Extraction "jaqmodel.ml"
  F64.of_Z F64.fadd F64.float_cmp Bytes.bz Bytes.zb Bytes.Z_to_dec
  Num.from_str Num.num_cmp Num.num_eqb Num.hash_num Num.length_num Num.as_pos_usize Num.as_isize
  Val.val_cmp Val.val_eqb Val.get Val.insert Val.from_map Val.as_bool Val.wf Val.hash_writes Val.sort_by
  Val.swap_remove_at
  Utf8.chunks Utf8.encode1 Utf8.to_lossy Utf8.valid_utf8
  Arith.math_run Arith.cmp_run Arith.vneg
  Eval.compile_prelude Eval.compile_main Eval.run_take Write.to_json Write.write_val Write.display Write.format_finite
  Index.vindex Index.vrange Read.parse_single Read.parse_many Main.run_cli Main.exit_code Args.parse_cli Args.opts_of PrecClimb.parse_chain Modules.load Lex.lex.
