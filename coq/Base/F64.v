(** IEEE-754 binary64 values as their 64-bit patterns ([Z] in [0, 2^64)).
    Arithmetic goes through the standard library's [SpecFloat] (the executable
    specification that Flocq proves equal to correctly rounded real arithmetic). *)
From Coq Require Import ZArith Bool Lia List.
From Coq Require Import Floats.SpecFloat.
Local Open Scope Z_scope.

Definition two52 : Z := 4503599627370496.
Definition two63 : Z := 9223372036854775808.
Definition two64 : Z := 18446744073709551616.

Definition f_sign (b : Z) : bool := two63 <=? b.
Definition f_exp (b : Z) : Z := (b / two52) mod 2048.
Definition f_man (b : Z) : Z := b mod two52.

Definition pos_zero : Z := 0.
Definition neg_zero : Z := two63.
Definition pos_inf : Z := 9218868437227405312.   (* 0x7FF0000000000000 *)
Definition neg_inf : Z := 18442240474082181120.  (* 0xFFF0000000000000 *)
Definition nan_bits : Z := 9221120237041090560.  (* 0x7FF8000000000000 *)

Definition is_nan (b : Z) : bool := (f_exp b =? 2047) && negb (f_man b =? 0).
Definition is_inf (b : Z) : bool := (f_exp b =? 2047) && (f_man b =? 0).
Definition is_finite (b : Z) : bool := negb (f_exp b =? 2047).
Definition is_zero (b : Z) : bool := (b =? pos_zero) || (b =? neg_zero).

(** Rust's [f64::total_cmp] key: the bits as [i64], all but the sign flipped for negatives. *)
Definition total_key (b : Z) : Z := if b <? two63 then b else two63 - 1 - b.

(** [float_cmp] of jaq-json/src/num.rs *)
Definition float_cmp (l r : Z) : comparison :=
  if is_zero l && is_zero r then Eq
  else if is_nan l then Lt
  else if is_nan r then Gt
  else Z.compare (total_key l) (total_key r).

Definition float_eq (l r : Z) : bool :=
  match float_cmp l r with Eq => true | _ => false end.

(** decode / encode *)
Definition to_sf (b : Z) : spec_float :=
  let s := f_sign b in let e := f_exp b in let m := f_man b in
  if e =? 0 then (if m =? 0 then S754_zero s else S754_finite s (Z.to_pos m) (-1074))
  else if e =? 2047 then (if m =? 0 then S754_infinity s else S754_nan)
  else S754_finite s (Z.to_pos (m + two52)) (e - 1075).

Definition sign_bit (s : bool) : Z := if s then two63 else 0.

Definition of_sf (f : spec_float) : Z :=
  match f with
  | S754_zero s => sign_bit s
  | S754_infinity s => sign_bit s + pos_inf
  | S754_nan => nan_bits
  | S754_finite s m e =>
      if Zpos m <? two52 then sign_bit s + Zpos m
      else sign_bit s + (e + 1075) * two52 + (Zpos m - two52)
  end.

Definition prec : Z := 53.
Definition emax : Z := 1024.

Definition fadd (a b : Z) : Z := of_sf (SFadd prec emax (to_sf a) (to_sf b)).
Definition fsub (a b : Z) : Z := of_sf (SFsub prec emax (to_sf a) (to_sf b)).
Definition fmul (a b : Z) : Z := of_sf (SFmul prec emax (to_sf a) (to_sf b)).
Definition fdiv (a b : Z) : Z := of_sf (SFdiv prec emax (to_sf a) (to_sf b)).
Definition fneg (a : Z) : Z := if is_nan a then nan_bits else if a <? two63 then a + two63 else a - two63.
Definition fabs (a : Z) : Z := if is_nan a then nan_bits else if a <? two63 then a else a - two63.

(** Rust's [%] on f64 (C [fmod]): exact, sign of the dividend. *)
Definition frem (a b : Z) : Z :=
  match to_sf a, to_sf b with
  | S754_nan, _ | _, S754_nan => nan_bits
  | S754_infinity _, _ => nan_bits
  | _, S754_zero _ => nan_bits
  | S754_zero _, _ => a
  | _, S754_infinity _ => a
  | S754_finite sx mx ex, S754_finite _ my ey =>
      let ez := Z.min ex ey in
      let X := Z.shiftl (Zpos mx) (ex - ez) in
      let Y := Z.shiftl (Zpos my) (ey - ez) in
      let r := X mod Y in
      if r =? 0 then sign_bit sx
      else of_sf (binary_normalize prec emax (if sx then - r else r) ez false)
  end.

(** [i as f64] / [BigInt::to_f64]: the integer rounded to nearest-even (infinite when too large). *)
Definition of_Z (z : Z) : Z := of_sf (binary_normalize prec emax z 0 false).

(** [m * 10^e10] correctly rounded; [m >= 0]. Exponents far outside the range are clamped first. *)
Definition of_dec (neg : bool) (m : Z) (e10 : Z) (ndigits : Z) : Z :=
  if m =? 0 then sign_bit neg
  else if 400 <? e10 + ndigits then sign_bit neg + pos_inf
  else if e10 + ndigits <? -400 then sign_bit neg
  else if 0 <=? e10 then
    of_sf (binary_normalize prec emax (if neg then - (m * 10 ^ e10) else m * 10 ^ e10) 0 false)
  else
    let '(q, e', l) := SFdiv_core_binary prec emax m 0 (10 ^ (- e10)) 0 in
    of_sf (binary_round_aux prec emax neg q e' l).

(** The exact integer value of a finite float with integral value, and truncation. *)
Definition to_Z_trunc (b : Z) : option Z :=
  match to_sf b with
  | S754_zero _ => Some 0
  | S754_finite s m e =>
      let v := if 0 <=? e then Z.shiftl (Zpos m) e else Z.shiftr (Zpos m) (- e) in
      Some (if s then - v else v)
  | _ => None
  end.

Definition is_integral (b : Z) : bool :=
  match to_sf b with
  | S754_zero _ => true
  | S754_finite _ m e => if 0 <=? e then true else (Zpos m) mod (2 ^ (- e)) =? 0
  | _ => false
  end.

Definition valid_bits (b : Z) : bool := (0 <=? b) && (b <? two64).
