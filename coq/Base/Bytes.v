(** Byte strings: [list byte], bytewise order, decimal digits. *)
From Coq Require Import ZArith Bool List Lia.
From Coq Require Import Init.Byte Strings.Byte.
Import ListNotations.
Local Open Scope Z_scope.

Definition bytes := list byte.

Definition bz (b : byte) : Z := Z.of_N (Byte.to_N b).

Definition zb (z : Z) : byte :=
  match Byte.of_N (Z.to_N z) with Some b => b | None => x00 end.

Lemma bz_range b : 0 <= bz b < 256.
Proof. unfold bz. pose proof (Byte.to_N_bounded b). lia. Qed.

Lemma zb_bz b : zb (bz b) = b.
Proof. unfold zb, bz. rewrite N2Z.id, Byte.of_to_N. reflexivity. Qed.

Lemma bz_inj a b : bz a = bz b -> a = b.
Proof. intros H. rewrite <- (zb_bz a), <- (zb_bz b), H. reflexivity. Qed.

Definition byte_eqb (a b : byte) : bool := bz a =? bz b.

Lemma byte_eqb_spec a b : reflect (a = b) (byte_eqb a b).
Proof.
  unfold byte_eqb. destruct (Z.eqb_spec (bz a) (bz b)) as [H|H]; constructor.
  - apply bz_inj, H.
  - intros ->. apply H. reflexivity.
Qed.

Fixpoint bytes_eqb (x y : bytes) : bool :=
  match x, y with
  | [], [] => true
  | a :: x, b :: y => byte_eqb a b && bytes_eqb x y
  | _, _ => false
  end.

Lemma bytes_eqb_spec x y : reflect (x = y) (bytes_eqb x y).
Proof.
  revert y; induction x as [|a x IH]; intros [|b y]; cbn; try (constructor; congruence).
  destruct (byte_eqb_spec a b) as [->|H]; cbn.
  - destruct (IH y) as [->|H]; constructor; congruence.
  - constructor; congruence.
Qed.

(** lexicographic, unsigned bytewise: [Ord for [u8]] *)
Fixpoint bytes_cmp (x y : bytes) : comparison :=
  match x, y with
  | [], [] => Eq
  | [], _ :: _ => Lt
  | _ :: _, [] => Gt
  | a :: x, b :: y =>
      match Z.compare (bz a) (bz b) with
      | Eq => bytes_cmp x y
      | c => c
      end
  end.

Definition is_digit (b : byte) : bool := (48 <=? bz b) && (bz b <=? 57).
Definition digit_val (b : byte) : Z := bz b - 48.

(** value of a digit string, most significant first *)
Fixpoint digits_val_acc (acc : Z) (ds : bytes) : Z :=
  match ds with
  | [] => acc
  | d :: ds => digits_val_acc (acc * 10 + digit_val d) ds
  end.
Definition digits_val (ds : bytes) : Z := digits_val_acc 0 ds.

Definition all_digits (ds : bytes) : bool := forallb is_digit ds.

Definition of_ascii (l : list Z) : bytes := map zb l.

(** decimal rendering of a non-negative / signed integer *)
Fixpoint pos_digits_fuel (fuel : nat) (z : Z) (acc : bytes) : bytes :=
  match fuel with
  | O => acc
  | S fuel =>
      if z <? 10 then zb (48 + z) :: acc
      else pos_digits_fuel fuel (z / 10) (zb (48 + z mod 10) :: acc)
  end.

Definition nat_digits (z : Z) : bytes :=
  pos_digits_fuel (S (Z.to_nat (Z.log2 z))) z [].

Definition x2d : byte := "-"%byte.
Definition x2b : byte := "+"%byte.
Definition x2e : byte := "."%byte.

Definition Z_to_dec (z : Z) : bytes :=
  if z <? 0 then x2d :: nat_digits (- z) else nat_digits z.
