(** Lazy output streams with a terminator: end, exception, or out of fuel. *)
From Coq Require Import ZArith List.
From JaqV Require Import Val.Val Val.Err.
Import ListNotations.

Inductive exn :=
| XErr (e : err)
| XBreak (l : nat)
| XHalt (code : Z).

Inductive str (A : Type) :=
| SNil
| SCons (a : A) (k : unit -> str A)
| SExn (e : exn)
| SBot                      (* out of fuel *)
| SUnk.                     (* behaviour outside the model (unmodelled native, allocation-sized result) *)
Arguments SNil {A}.
Arguments SCons {A} a k.
Arguments SExn {A} e.
Arguments SBot {A}.
Arguments SUnk {A}.

Definition sone {A} (a : A) : str A := SCons a (fun _ => SNil).
Definition serr {A} (e : err) : str A := SExn (XErr e).

Definition of_res {A} (r : res A) : str A :=
  match r with Ok a => sone a | Err e => serr e end.

Fixpoint sapp {A} (s : str A) (r : unit -> str A) : str A :=
  match s with
  | SNil => r tt
  | SCons x k => SCons x (fun _ => sapp (k tt) r)
  | SExn e => SExn e
  | SBot => SBot
  | SUnk => SUnk
  end.

Fixpoint sbind {A B} (s : str A) (f : A -> str B) : str B :=
  match s with
  | SNil => SNil
  | SCons x k => sapp (f x) (fun _ => sbind (k tt) f)
  | SExn e => SExn e
  | SBot => SBot
  | SUnk => SUnk
  end.

Fixpoint smap {A B} (f : A -> B) (s : str A) : str B :=
  match s with
  | SNil => SNil
  | SCons x k => SCons (f x) (fun _ => smap f (k tt))
  | SExn e => SExn e
  | SBot => SBot
  | SUnk => SUnk
  end.

Fixpoint of_list {A} (l : list A) : str A :=
  match l with
  | [] => SNil
  | x :: r => SCons x (fun _ => of_list r)
  end.

(** terminator of a fully evaluated stream *)
Inductive fin := FEnd | FExn (e : exn) | FBot | FUnk.

Fixpoint collect {A} (s : str A) : list A * fin :=
  match s with
  | SNil => ([], FEnd)
  | SCons x k => let '(l, f) := collect (k tt) in (x :: l, f)
  | SExn e => ([], FExn e)
  | SBot => ([], FBot)
  | SUnk => ([], FUnk)
  end.

(** collect at most [n] items: ([items], Some terminator | None when cut) *)
Fixpoint take {A} (n : nat) (s : str A) : list A * option fin :=
  match s with
  | SNil => ([], Some FEnd)
  | SExn e => ([], Some (FExn e))
  | SBot => ([], Some FBot)
  | SUnk => ([], Some FUnk)
  | SCons x k =>
      match n with
      | O => ([], None)
      | S n => let '(l, f) := take n (k tt) in (x :: l, f)
      end
  end.

Definition fin_str {A} (f : fin) : str A :=
  match f with FEnd => SNil | FExn e => SExn e | FBot => SBot | FUnk => SUnk end.

(** [collect::<Result<Vec,_>>]: all items or the first failure *)
Definition collect_then {A B} (s : str A) (f : list A -> str B) : str B :=
  let '(l, t) := collect s in
  match t with FEnd => f l | _ => fin_str t end.

(** first element of a stream ([Iterator::next]) *)
Inductive first_of (A : Type) := FNone | FSome (a : A) | FFail (f : fin).
Arguments FNone {A}.
Arguments FSome {A} a.
Arguments FFail {A} f.

Definition first {A} (s : str A) : first_of A :=
  match s with
  | SNil => FNone
  | SCons x _ => FSome x
  | SExn e => FFail (FExn e)
  | SBot => FFail FBot
  | SUnk => FFail FUnk
  end.

(** [try]: replace the stream from the first error on *)
Fixpoint stry {A} (s : str A) (h : err -> str A) : str A :=
  match s with
  | SNil => SNil
  | SCons x k => SCons x (fun _ => stry (k tt) h)
  | SExn (XErr e) => h e
  | SExn e => SExn e
  | SBot => SBot
  | SUnk => SUnk
  end.

(** [label]: stop at a break of this label *)
Fixpoint slabel {A} (l : nat) (s : str A) : str A :=
  match s with
  | SNil => SNil
  | SCons x k => SCons x (fun _ => slabel l (k tt))
  | SExn (XBreak l') => if Nat.eqb l l' then SNil else SExn (XBreak l')
  | SExn e => SExn e
  | SBot => SBot
  | SUnk => SUnk
  end.
