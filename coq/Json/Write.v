(** The JSON(-superset) writer: mirrors jaq-json/src/write.rs ([write_byte!], [write_utf8!],
    [write_bytes!], [write_seq!], [format_val!] / [write_val!]) and [impl Display for Num];
    shortest round-trip printing of floats as the `ryu` crate does it. *)
From Coq Require Import ZArith Bool List Lia.
From Coq Require Import Floats.SpecFloat Init.Byte.
From JaqV Require Import Base.F64 Base.Bytes Val.Num Val.Val Val.Utf8.
Import ListNotations.
Local Open Scope Z_scope.

(** ** shortest digits: [v = D * 10^k] with the fewest digits inside the rounding interval of the
    float, closest to the exact value, ties to even *)

(** exact value of a finite non-zero float as a fraction [n/d] (both positive) *)
Definition frac_of (m : positive) (e : Z) : Z * Z :=
  if 0 <=? e then (Zpos m * 2 ^ e, 1) else (Zpos m, 2 ^ (- e)).

(** [floor (n / d)] for positive arguments *)
Definition qfloor (n d : Z) : Z := n / d.

(** scale a fraction by [10^(-k)] *)
Definition scale10 (n d k : Z) : Z * Z :=
  if 0 <=? k then (n, d * 10 ^ k) else (n * 10 ^ (- k), d).

(** number of decimal digits of a positive integer *)
Definition ndigits (z : Z) : Z := Z.of_nat (length (nat_digits z)).

Fixpoint strip_zeros (fuel : nat) (D k : Z) : Z * Z :=
  match fuel with
  | O => (D, k)
  | S fuel => if (D mod 10 =? 0) && negb (D =? 0) then strip_zeros fuel (D / 10) (k + 1) else (D, k)
  end.

(** try [n] significant digits; [kk0] = number of integer digits of v (10^(kk0-1) <= v < 10^kk0) *)
Definition try_digits (vn vd ln ld hn hd : Z) (incl : bool) (kk0 n : Z) : option (Z * Z) :=
  let k := kk0 - n in
  let '(sn, sd) := scale10 vn vd k in         (* v / 10^k = sn / sd *)
  let dn := qfloor sn sd in
  let up := dn + 1 in
  (* candidate c is inside iff low <= c*10^k <= high (strict unless incl) *)
  let inside := fun c =>
    let '(cn, cd) := if 0 <=? k then (c * 10 ^ k, 1) else (c, 10 ^ (- k)) in
    let ge_low := if incl then ln * cd <=? cn * ld else ln * cd <? cn * ld in
    let le_high := if incl then cn * hd <=? hn * cd else cn * hd <? hn * cd in
    ge_low && le_high in
  let din := inside dn && (0 <? dn) in
  let uin := inside up in
  (* distance comparison: v - dn*10^k  vs  up*10^k - v, i.e. 2*sn vs (2*dn+1)*sd *)
  let c := Z.compare (2 * sn) ((2 * dn + 1) * sd) in
  if din && uin then
    Some (match c with Lt => dn | Gt => up | Eq => if Z.even dn then dn else up end, k)
  else if din then Some (dn, k)
  else if uin then Some (up, k)
  else None.

Fixpoint search_digits (fuel : nat) (vn vd ln ld hn hd : Z) (incl : bool) (kk0 n : Z) : Z * Z :=
  match fuel with
  | O => (0, 0)
  | S fuel =>
      match try_digits vn vd ln ld hn hd incl kk0 n with
      | Some r => r
      | None => search_digits fuel vn vd ln ld hn hd incl kk0 (n + 1)
      end
  end.

(** number of integer digits: the [kk] with [10^(kk-1) <= n/d < 10^kk] *)
Fixpoint adjust_kk (fuel : nat) (n d kk : Z) : Z :=
  match fuel with
  | O => kk
  | S fuel =>
      let '(sn, sd) := scale10 n d kk in        (* v / 10^kk *)
      if sd <=? sn then adjust_kk fuel n d (kk + 1)
      else let '(tn, td) := scale10 n d (kk - 1) in
           if tn <? td then adjust_kk fuel n d (kk - 1) else kk
  end.

Definition int_digits (n d : Z) : Z :=
  let est := ((Z.log2 n - Z.log2 d) * 30103) / 100000 in
  adjust_kk 8 n d est.

(** shortest decimal of a positive finite float given as mantissa/exponent *)
Definition shortest (m : positive) (e : Z) : Z * Z :=
  let '(vn, vd) := frac_of m e in
  (* half-ulp bounds, over denominator 4*vd: v = 4vn/(4vd) *)
  let boundary := (Zpos m =? two52) && negb (e =? -1074) in
  let ulpn := if 0 <=? e then 2 ^ e else 1 in   (* ulp = ulpn / vd *)
  let hn := 4 * vn + 2 * ulpn in
  let ln := 4 * vn - (if boundary then ulpn else 2 * ulpn) in
  let d4 := 4 * vd in
  let incl := Z.even (Zpos m) in
  let kk0 := int_digits vn vd in
  let '(D, k) := search_digits 18 vn vd ln d4 hn d4 incl kk0 1 in
  strip_zeros 20 D k.

Definition dot : byte := x2e.
Definition chr (z : Z) : byte := zb z.
Definition zeros (n : Z) : bytes := repeat (chr 48) (Z.to_nat n).

(** [ryu::Buffer::format_finite] *)
Definition format_finite (b : Z) : bytes :=
  let sign := if f_sign b then [x2d] else [] in
  match to_sf b with
  | S754_finite _ m e =>
      let '(D, k) := shortest m e in
      let ds := nat_digits D in
      let len := Z.of_nat (length ds) in
      let kk := len + k in
      sign ++
      (if (0 <=? k) && (kk <=? 16) then ds ++ zeros k ++ [dot; chr 48]
       else if (0 <? kk) && (kk <=? 16) then firstn (Z.to_nat kk) ds ++ [dot] ++ skipn (Z.to_nat kk) ds
       else if (-5 <? kk) && (kk <=? 0) then [chr 48; dot] ++ zeros (- kk) ++ ds
       else if len =? 1 then ds ++ [chr 101] ++ Z_to_dec (kk - 1)
       else firstn 1 ds ++ [dot] ++ skipn 1 ds ++ [chr 101] ++ Z_to_dec (kk - 1))
  | _ => sign ++ [chr 48; dot; chr 48]
  end.

Definition asc (l : list Z) : bytes := of_ascii l.

(** [impl Display for Num] *)
Definition show_num (n : num) : bytes :=
  match n with
  | Int i => Z_to_dec i
  | Big z => Z_to_dec z
  | Flt b =>
      if is_nan b then asc [78; 97; 78]
      else if b =? pos_inf then asc [73;110;102;105;110;105;116;121]
      else if b =? neg_inf then asc [45;73;110;102;105;110;105;116;121]
      else format_finite b
  | Dec s => s
  end.

(** ** strings *)
Definition hex_digit (z : Z) : byte := if z <? 10 then chr (48 + z) else chr (87 + z).

(** [write_byte!]; [uni]: text strings use \u00XX, byte strings \xXX *)
Definition write_byte (uni : bool) (c : byte) : bytes :=
  let z := bz c in
  if z =? 8 then asc [92; 98]
  else if z =? 12 then asc [92; 102]
  else if z =? 9 then asc [92; 116]
  else if z =? 10 then asc [92; 110]
  else if z =? 13 then asc [92; 114]
  else if z =? 92 then asc [92; 92]
  else if z =? 34 then asc [92; 34]
  else if (z <? 32) || (127 <=? z) then
    if uni then asc [92; 117; 48; 48] ++ [hex_digit (z / 16); hex_digit (z mod 16)]
    else asc [92; 120] ++ [hex_digit (z / 16); hex_digit (z mod 16)]
  else [c].

Definition is_special (c : byte) : bool :=
  let z := bz c in (z <? 32) || (z =? 92) || (z =? 34) || (z =? 127).

(** [write_utf8!]: only specials are escaped; other bytes (also invalid UTF-8) are copied *)
Definition write_utf8 (s : bytes) : bytes :=
  [chr 34] ++ flat_map (fun c => if is_special c then write_byte true c else [c]) s ++ [chr 34].

(** [write_bytes!] *)
Definition write_bytes (s : bytes) : bytes :=
  asc [98; 34] ++ flat_map (write_byte false) s ++ [chr 34].

(** ** values *)
Record pp := { pp_indent : option bytes; pp_sort_keys : bool; pp_sep_space : bool }.

Definition pp_default : pp := {| pp_indent := None; pp_sort_keys := false; pp_sep_space := false |}.

Fixpoint repeat_bytes (n : nat) (s : bytes) : bytes :=
  match n with O => [] | S n => s ++ repeat_bytes n s end.

Definition nl : bytes := [chr 10].

(** [write_seq!] over already rendered items *)
Definition write_seq (p : pp) (level : nat) (items : list bytes) : bytes :=
  match pp_indent p with
  | Some ind =>
      nl ++
      (fix go (items : list bytes) : bytes :=
         match items with
         | [] => []
         | [x] => repeat_bytes (S level) ind ++ x ++ nl
         | x :: r => repeat_bytes (S level) ind ++ x ++ [chr 44] ++ nl ++ go r
         end) items
      ++ repeat_bytes level ind
  | None =>
      (fix go (items : list bytes) : bytes :=
         match items with
         | [] => []
         | [x] => x
         | x :: r => x ++ [chr 44] ++ (if pp_sep_space p then [chr 32] else []) ++ go r
         end) items
  end.

(** [lossy]: the formatter variant ([format_val!]) replaces invalid UTF-8 in text strings *)
Fixpoint write_f (n : nat) (lossy : bool) (p : pp) (level : nat) (v : val) : bytes :=
  match n with
  | O => []
  | S n =>
      match v with
      | Null => asc [110; 117; 108; 108]
      | Bool true => asc [116; 114; 117; 101]
      | Bool false => asc [102; 97; 108; 115; 101]
      | Num x => show_num x
      | BStr b => write_bytes b
      | TStr s => write_utf8 (if lossy then to_lossy s else s)
      | Arr a =>
          [chr 91] ++ (match a with
                       | [] => []
                       | _ => write_seq p level (map (write_f n lossy p (S level)) a)
                       end) ++ [chr 93]
      | Obj o =>
          let o := if pp_sort_keys p then sort_by (fun a b => val_cmp (fst a) (fst b)) o else o in
          [chr 123] ++ (match o with
                        | [] => []
                        | _ => write_seq p level
                                 (map (fun kv => write_f n lossy p (S level) (fst kv) ++ [chr 58]
                                                 ++ (if pp_sep_space p then [chr 32] else [])
                                                 ++ write_f n lossy p (S level) (snd kv)) o)
                        end) ++ [chr 125]
      end
  end.

Definition write_val (p : pp) (level : nat) (v : val) : bytes := write_f (S (depth v)) false p level v.

(** [Val::to_json] *)
Definition to_json (v : val) : bytes := write_val pp_default 0 v.

(** [impl Display for Val] *)
Definition display (v : val) : bytes := write_f (S (depth v)) true pp_default 0 v.
