(** The JSON(-superset) reader: mirrors jaq-json/src/read.rs ([ws_tk], [parse], [parse_string],
    [parse_num], [parse_single], [parse_many]) over a reference model of the hifijson lexer calls it
    uses ([eat_whitespace], [str_fold], [escape], [hex], [num_string_with(signed_digits)], [seq]). *)
From Coq Require Import ZArith Bool List Lia.
From Coq Require Import Init.Byte.
From JaqV Require Import Base.F64 Base.Bytes Val.Num Val.Val Val.Utf8.
Import ListNotations.
Local Open Scope Z_scope.

Inductive perr :=
| PExpectValue | PExpectValueOrEnd | PExpectCommaOrEnd | PExpectColon | PExpectEof
| PStrControl | PStrEof | PEscape | PNumDigit | PFuel.

Inductive pres (A : Type) := POk (a : A) (rest : bytes) | PErr (e : perr).
Arguments POk {A} a rest.
Arguments PErr {A} e.

Definition is_ws (c : byte) : bool :=
  let z := bz c in (z =? 32) || (z =? 9) || (z =? 13) || (z =? 10).

Fixpoint skip_line (s : bytes) : bytes :=
  match s with
  | [] => []
  | c :: r => if bz c =? 10 then s else skip_line r
  end.

(** [ws_tk]: whitespace and `#` comments; fuel = length *)
Fixpoint ws_tk (fuel : nat) (s : bytes) : bytes :=
  match fuel with
  | O => s
  | S fuel =>
      match s with
      | c :: r => if is_ws c then ws_tk fuel r
                  else if bz c =? 35 then ws_tk fuel (skip_line r)
                  else s
      | [] => []
      end
  end.

Definition ws (s : bytes) : bytes := ws_tk (S (length s)) s.

Fixpoint strip_prefix (p s : bytes) : option bytes :=
  match p, s with
  | [], _ => Some s
  | a :: p, b :: s => if byte_eqb a b then strip_prefix p s else None
  | _ :: _, [] => None
  end.

Definition lit (l : list Z) : bytes := of_ascii l.
Definition l_null := lit [110;117;108;108].
Definition l_true := lit [116;114;117;101].
Definition l_false := lit [102;97;108;115;101].
Definition l_bq := lit [98;34].
Definition l_nan := lit [78;97;78].
Definition l_infinity := lit [73;110;102;105;110;105;116;121].
Definition l_bs_u := lit [92;117].

Definition hexv (c : byte) : option Z :=
  let z := bz c in
  if (48 <=? z) && (z <=? 57) then Some (z - 48)
  else if (97 <=? z) && (z <=? 102) then Some (z - 87)
  else if (65 <=? z) && (z <=? 70) then Some (z - 55)
  else None.

(** [hex::<T>]: [n] hex digits *)
Fixpoint hex (n : nat) (acc : Z) (s : bytes) : option (Z * bytes) :=
  match n with
  | O => Some (acc, s)
  | S n =>
      match s with
      | c :: r => match hexv c with Some h => hex n (acc * 16 + h) r | None => None end
      | [] => None
      end
  end.

Definition escape_lit (c : byte) : option Z :=
  let z := bz c in
  if z =? 34 then Some 34 else if z =? 92 then Some 92 else if z =? 47 then Some 47
  else if z =? 98 then Some 8 else if z =? 102 then Some 12 else if z =? 110 then Some 10
  else if z =? 114 then Some 13 else if z =? 116 then Some 9 else None.

(** [escape] after the backslash: the decoded scalar value *)
Definition escape (c : byte) (s : bytes) : option (Z * bytes) :=
  if bz c =? 117 then
    match hex 4 0 s with
    | Some (u, r) =>
        if (55296 <=? u) && (u <=? 56319) then
          match strip_prefix l_bs_u r with
          | Some r' =>
              match hex 4 0 r' with
              | Some (lo, r'') =>
                  if (56320 <=? lo) && (lo <=? 57343)
                  then Some ((u - 55296) * 1024 + (lo - 56320) + 65536, r'')
                  else None
              | None => None
              end
          | None => None
          end
        else if is_scalar u then Some (u, r) else None
    | None => None
    end
  else match escape_lit c with Some z => Some (z, s) | None => None end.

Definition string_end (c : byte) : bool :=
  let z := bz c in (z =? 92) || (z =? 34) || (z <? 32).

(** [parse_string]: after the opening quote; [isbytes] selects the b"..." escapes; fuel = length *)
Fixpoint parse_string (fuel : nat) (isbytes : bool) (s : bytes) (acc : bytes) : pres bytes :=
  match fuel with
  | O => PErr PFuel
  | S fuel =>
      match s with
      | [] => PErr PStrEof
      | c :: r =>
          if negb (string_end c) then parse_string fuel isbytes r (c :: acc)
          else if bz c =? 34 then POk (rev acc) r
          else if bz c =? 92 then
            match r with
            | [] => PErr PEscape
            | e :: r' =>
                if isbytes && (bz e =? 117) then PErr PEscape
                else if isbytes && (bz e =? 120) then
                  match hex 2 0 r' with
                  | Some (b, r'') => parse_string fuel isbytes r'' (zb b :: acc)
                  | None => PErr PEscape
                  end
                else
                  match escape e r' with
                  | Some (u, r'') => parse_string fuel isbytes r'' (rev (encode1 u) ++ acc)
                  | None => PErr PEscape
                  end
            end
          else PErr PStrControl
      end
  end.

(** hifijson's number lexer with [Num::signed_digits()]: state = last byte read and the parts *)
Record nstate := { n_read : Z; n_zero : bool; n_dot : bool; n_exp : bool }.

Definition is_dig (z : Z) : bool := (48 <=? z) && (z <=? 57).

Definition num_part (st : nstate) (c : Z) : option nstate :=
  let r := n_read st in
  let upd := fun zero dot exp => Some {| n_read := c; n_zero := zero; n_dot := dot; n_exp := exp |} in
  if (r =? 0) && (c =? 45) then upd (n_zero st) (n_dot st) (n_exp st)
  else if ((r =? 0) || (r =? 45)) && (c =? 48) && negb (n_dot st) && negb (n_exp st) then upd true (n_dot st) (n_exp st)
  else if is_dig c && (negb (n_zero st) || n_dot st || n_exp st) then upd (n_zero st) (n_dot st) (n_exp st)
  else if is_dig r && (c =? 46) && negb (n_dot st) && negb (n_exp st) then upd (n_zero st) true (n_exp st)
  else if is_dig r && ((c =? 101) || (c =? 69)) && negb (n_exp st) then upd (n_zero st) (n_dot st) true
  else if ((r =? 101) || (r =? 69)) && ((c =? 43) || (c =? 45)) then upd (n_zero st) (n_dot st) (n_exp st)
  else None.

Fixpoint lex_num (st : nstate) (s : bytes) (acc : bytes) : bytes * nstate * bytes :=
  match s with
  | c :: r => match num_part st (bz c) with
              | Some st' => lex_num st' r (c :: acc)
              | None => (rev acc, st, s)
              end
  | [] => (rev acc, st, [])
  end.

Definition signed_digits : nstate := {| n_read := 101; n_zero := false; n_dot := false; n_exp := false |}.

Definition last_is_digit (s : bytes) : bool :=
  match rev s with c :: _ => is_digit c | [] => false end.

(** [parse_num] *)
Definition parse_num (s : bytes) : pres num :=
  let '(text, st, rest) := lex_num signed_digits s [] in
  match text, strip_prefix l_infinity rest with
  | [c], Some rest' =>
      if bz c =? 43 then POk (Flt pos_inf) rest'
      else if bz c =? 45 then POk (Flt neg_inf) rest'
      else if last_is_digit text then
        (if negb (n_dot st) && negb (n_exp st) then POk (from_str text) rest else POk (Dec text) rest)
      else PErr PNumDigit
  | _, _ =>
      if last_is_digit text then
        (if negb (n_dot st) && negb (n_exp st) then
           match parse_int_dec text with
           | Some z => POk (int_or_big z) rest
           | None => PErr PNumDigit
           end
         else POk (Dec text) rest)
      else PErr PNumDigit
  end.

(** [parse] with the [seq] loops of arrays and objects; fuel bounds the recursion (length of the input) *)
Fixpoint parse (fuel : nat) (s : bytes) : pres val :=
  match fuel with
  | O => PErr PFuel
  | S fuel =>
      match s with
      | [] => PErr PExpectValue
      | c :: r =>
          let z := bz c in
          let try_lit := fun (l : bytes) (v : val) =>
            match strip_prefix l s with Some rest => POk v rest | None => PErr PExpectValue end in
          if z =? 110 then try_lit l_null Null
          else if z =? 116 then try_lit l_true (Bool true)
          else if z =? 102 then try_lit l_false (Bool false)
          else if z =? 98 then
            match strip_prefix l_bq s with
            | Some rest => match parse_string (S (length rest)) true rest [] with
                           | POk b rest' => POk (BStr b) rest'
                           | PErr e => PErr e
                           end
            | None => PErr PExpectValue
            end
          else if z =? 78 then try_lit l_nan (Num (Flt nan_bits))
          else if z =? 73 then try_lit l_infinity (Num (Flt pos_inf))
          else if is_dig z || (z =? 43) || (z =? 45) then
            match parse_num s with POk n rest => POk (Num n) rest | PErr e => PErr e end
          else if z =? 34 then
            match parse_string (S (length r)) false r [] with
            | POk b rest' => POk (TStr b) rest'
            | PErr e => PErr e
            end
          else if z =? 91 then
            (* seq(b']') *)
            match ws r with
            | [] => PErr PExpectValueOrEnd
            | c1 :: r1 =>
                if bz c1 =? 93 then POk (Arr []) r1
                else
                  (fix items (n : nat) (s : bytes) (acc : list val) : pres val :=
                     match n with
                     | O => PErr PFuel
                     | S n =>
                         match parse fuel s with
                         | PErr e => PErr e
                         | POk v rest =>
                             match ws rest with
                             | [] => PErr PExpectCommaOrEnd
                             | c2 :: r2 =>
                                 if bz c2 =? 93 then POk (Arr (rev (v :: acc))) r2
                                 else if bz c2 =? 44 then
                                   match ws r2 with
                                   | [] => PErr PExpectValue
                                   | s' => items n s' (v :: acc)
                                   end
                                 else PErr PExpectCommaOrEnd
                             end
                         end
                     end) fuel (c1 :: r1) []
            end
          else if z =? 123 then
            match ws r with
            | [] => PErr PExpectValueOrEnd
            | c1 :: r1 =>
                if bz c1 =? 125 then POk (Obj []) r1
                else
                  (fix entries (n : nat) (s : bytes) (acc : obj) : pres val :=
                     match n with
                     | O => PErr PFuel
                     | S n =>
                         match parse fuel s with
                         | PErr e => PErr e
                         | POk k rest =>
                             match ws rest with
                             | c2 :: r2 =>
                                 if bz c2 =? 58 then
                                   match ws r2 with
                                   | [] => PErr PExpectValue
                                   | s2 =>
                                       match parse fuel s2 with
                                       | PErr e => PErr e
                                       | POk v rest2 =>
                                           let acc' := insert acc k v in
                                           match ws rest2 with
                                           | [] => PErr PExpectCommaOrEnd
                                           | c3 :: r3 =>
                                               if bz c3 =? 125 then POk (Obj acc') r3
                                               else if bz c3 =? 44 then
                                                 match ws r3 with
                                                 | [] => PErr PExpectValue
                                                 | s' => entries n s' acc'
                                                 end
                                               else PErr PExpectCommaOrEnd
                                           end
                                       end
                                   end
                                 else PErr PExpectColon
                             | [] => PErr PExpectColon
                             end
                         end
                     end) fuel (c1 :: r1) []
            end
          else PErr PExpectValue
      end
  end.

(** [parse_single]: exactly one value, surrounded by whitespace/comments *)
Definition parse_single (s : bytes) : pres val :=
  match ws s with
  | [] => PErr PExpectValue
  | s' =>
      match parse (S (length s')) s' with
      | POk v rest => match ws rest with [] => POk v [] | _ => PErr PExpectEof end
      | PErr e => PErr e
      end
  end.

(** [parse_many]: values until the end; the first failure ends the sequence *)
Fixpoint parse_many (fuel : nat) (s : bytes) : list val * option perr :=
  match fuel with
  | O => ([], Some PFuel)
  | S fuel =>
      match ws s with
      | [] => ([], None)
      | s' =>
          match parse (S (length s')) s' with
          | POk v rest => let '(vs, e) := parse_many fuel rest in (v :: vs, e)
          | PErr e => ([], Some e)
          end
      end
  end.
