(** Module loading: mirrors [Loader::load] / [Loader::find] of jaq-core/src/load/mod.rs over an abstract
    file system (a file = its identity after path resolution, and the list of files it includes/imports). *)
From Coq Require Import List Bool Arith Lia.
Import ListNotations.

Definition file := nat.
Definition fsys := list (file * list file).       (* dependency directives of every readable file, in order *)

Fixpoint deps_of (fs : fsys) (f : file) : option (list file) :=
  match fs with
  | [] => None
  | (g, ds) :: r => if Nat.eqb f g then Some ds else deps_of r f
  end.

Inductive lerr := NotFound (f : file) | Circular (f : file) | Fuel.

(** loader state: the modules loaded so far (module id = position), and the files being loaded *)
Record lstate := { l_mods : list file; l_open : list file }.

Fixpoint index_of (f : file) (l : list file) (i : nat) : option nat :=
  match l with
  | [] => None
  | g :: r => if Nat.eqb f g then Some i else index_of f r (S i)
  end.

(** load the dependencies in order with a given loader for one file *)
Fixpoint load_all (F : lstate -> file -> (nat * lstate) + lerr) (st : lstate) (ds : list file) : lstate + lerr :=
  match ds with
  | [] => inl st
  | d :: r => match F st d with
              | inl (_, st') => load_all F st' r
              | inr e => inr e
              end
  end.

(** [Loader::find]: a file already loaded is not loaded again; a file being loaded is a circular import *)
Fixpoint find (fuel : nat) (fs : fsys) (st : lstate) (f : file) : (nat * lstate) + lerr :=
  match fuel with
  | O => inr Fuel
  | S fuel =>
      match deps_of fs f with
      | None => inr (NotFound f)
      | Some ds =>
          match index_of f (l_mods st) 0 with
          | Some id => inl (id, st)
          | None =>
              if existsb (Nat.eqb f) (l_open st) then inr (Circular f)
              else
                match load_all (find fuel fs) {| l_mods := l_mods st; l_open := f :: l_open st |} ds with
                | inr e => inr e
                | inl st2 => inl (length (l_mods st2), {| l_mods := l_mods st2 ++ [f]; l_open := l_open st |})
                end
          end
      end
  end.

(** [Loader::load] for a main program with the given directives; module 0 is the prelude *)
Definition prelude_file : file := 0.

Definition load (fs : fsys) (main_deps : list file) : list file + lerr :=
  match load_all (find (S (length fs)) fs) {| l_mods := [prelude_file]; l_open := [] |} main_deps with
  | inl st => inl (l_mods st)
  | inr e => inr e
  end.
