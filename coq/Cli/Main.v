(** The command line: mirrors jaq/src/main.rs ([real_main], [Termination for Error]), jaq/src/filter.rs
    ([run]), jaq-all/src/data.rs ([run]: the main loop), jaq-fmts read/formats.rs ([read] for json/raw/raw0,
    [collect_if]) and write/formats.rs ([write]: rendering and terminators) for JSON and raw formats. *)
From Coq Require Import ZArith Bool List Lia.
From Coq Require Import Init.Byte.
From JaqV Require Import Base.Bytes Base.Stream Val.Num Val.Val Val.Err Core.Syntax Core.Compile Core.Run Core.Eval
  Json.Write Json.Read.
Import ListNotations.
Local Open Scope Z_scope.

Inductive infmt := InJson | InRaw | InRaw0.
Inductive outfmt := OutJson | OutRaw | OutRaw0.

Record opts := {
  o_null_input : bool;
  o_slurp : bool;
  o_from : infmt;
  o_to : outfmt;
  o_compact : bool;
  o_join : bool;
  o_sort_keys : bool;
  o_indent : bytes;            (* the indentation unit: [Cli::indent] *)
  o_exit_status : bool
}.

(** [Cli::pp] *)
Definition pp_of (o : opts) : pp :=
  {| pp_indent := if o_compact o then None else Some (o_indent o);
     pp_sort_keys := o_sort_keys o;
     pp_sep_space := negb (o_compact o) |}.

(** ** reading inputs *)

(** bstr [lines]: terminated by \n or \r\n, terminators stripped, no final empty line *)
Fixpoint lines_go (s cur : bytes) : list bytes :=
  match s with
  | [] => match cur with [] => [] | _ => [rev cur] end
  | c :: r =>
      if bz c =? 10 then
        (match cur with
         | d :: cur' => if bz d =? 13 then rev cur' else rev cur
         | [] => []
         end) :: lines_go r []
      else lines_go r (c :: cur)
  end.

Definition byte_lines (s : bytes) : list bytes := lines_go s [].

(** [byte_records(0)] / [nul_sep]: records separated by NUL, a final terminator does not open a new record *)
Fixpoint records_go (s cur : bytes) : list bytes :=
  match s with
  | [] => match cur with [] => [] | _ => [rev cur] end
  | c :: r => if bz c =? 0 then rev cur :: records_go r [] else records_go r (c :: cur)
  end.

(** the input values, and whether reading failed after them *)
Definition read_inputs (o : opts) (stdin : bytes) : list val * bool :=
  match o_from o with
  | InRaw => if o_slurp o then ([TStr stdin], false) else (map TStr (byte_lines stdin), false)
  | InRaw0 => let rs := map TStr (records_go stdin []) in
              if o_slurp o then ([Arr rs], false) else (rs, false)
  | InJson =>
      let '(vs, e) := parse_many (S (length stdin)) stdin in
      let failed := match e with Some _ => true | None => false end in
      if o_slurp o then (if failed then ([], true) else ([Arr vs], false)) else (vs, failed)
  end.

(** ** writing outputs: [write] of jaq-fmts/src/write/formats.rs; [None]: NUL inside a string with raw0 *)
Definition has_nul (b : bytes) : bool := existsb (fun c => bz c =? 0) b.

Definition render (o : opts) (v : val) : option bytes :=
  let body :=
    match v, o_to o with
    | (BStr b | TStr b), OutRaw0 => if has_nul b then None else Some b
    | (BStr b | TStr b), OutRaw => Some b
    | _, _ => Some (write_val (pp_of o) 0 v)
    end in
  let term := match o_to o with
              | OutRaw0 => [zb 0]
              | _ => if o_join o then [] else [zb 10]
              end in
  option_map (fun b => b ++ term) body.

(** ** the main loop *)
Inductive outcome :=
| Finished (last : option bool)      (* all inputs processed; truthiness of the last output *)
| RunError                           (* uncaught error of the filter *)
| Halted (code : Z)
| InputError (last : option bool)    (* an input value failed to parse *)
| WriteError                         (* output could not be written (raw0 with NUL) *)
| OutOfModel.                        (* fuel exhausted / unmodelled native *)

(** write the items of one run in order; stop at the first that cannot be written *)
Fixpoint emit (o : opts) (items : list val) (acc : bytes) (last : option bool) : bytes * option bool * bool :=
  match items with
  | [] => (acc, last, true)
  | v :: r =>
      match render o v with
      | Some b => emit o r (acc ++ b) (Some (as_bool v))
      | None => (acc, last, false)
      end
  end.

Fixpoint main_loop (fuel : nat) (o : opts) (p : program) (globals : list val) (inputs : list val)
  (out : bytes) (last : option bool) : bytes * outcome :=
  match inputs with
  | [] => (out, Finished last)
  | x :: rest =>
      let '(items, fin) := collect (run_main fuel p globals x) in
      let '(out', last', ok) := emit o items out last in
      if negb ok then (out', WriteError)
      else match fin with
           | FEnd => main_loop fuel o p globals rest out' last'
           | FExn (XErr _) => (out', RunError)
           | FExn (XHalt c) => (out', Halted c)
           | FExn (XBreak _) => (out', OutOfModel)
           | FBot | FUnk => (out', OutOfModel)
           end
  end.

Definition run_cli (fuel : nat) (o : opts) (p : program) (globals : list val) (stdin : bytes) : bytes * outcome :=
  if (0 <? Z.of_nat (p_errs p)) then ([], OutOfModel) else
  let '(inputs, failed) := if o_null_input o then ([Null], false) else read_inputs o stdin in
  match main_loop fuel o p globals inputs [] None with
  | (out, Finished last) => (out, if failed then InputError last else Finished last)
  | r => r
  end.

(** [Termination for Error] and the `--exit-status` rule *)
Definition exit_code (o : opts) (oc : outcome) : Z :=
  match oc with
  | Finished last =>
      if o_exit_status o then
        match last with None => 4 | Some true => 0 | Some false => 1 end
      else 0
  | RunError => 5
  | InputError _ => 5
  | Halted c => c mod 256
  | WriteError => 2
  | OutOfModel => -1
  end.
