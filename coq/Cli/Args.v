(** Command-line options: mirrors [Cli::parse], [Cli::long], [Cli::short], [Cli::positional] of jaq/src/cli.rs
    for the options that select input, output and outcome reporting. *)
From Coq Require Import ZArith Bool List Lia.
From Coq Require Import Strings.String Strings.Ascii.
From JaqV Require Import Base.Bytes Cli.Main.
Import ListNotations.
Local Open Scope string_scope.

Inductive fmt := FRaw | FRaw0 | FJson | FOther (name : string).

Record cli := {
  c_from : option fmt; c_null_input : bool; c_slurp : bool;
  c_to : option fmt; c_compact : bool; c_join : bool; c_in_place : bool; c_sort_keys : bool;
  c_color : bool; c_mono : bool; c_tab : bool; c_indent : option nat;
  c_from_file : bool; c_exit_status : bool; c_version : bool; c_help : bool;
  c_filter : option string; c_files : list string; c_args : list string;
  c_named : list (string * string * string)      (* kind (arg/argjson/slurpfile/rawfile), name, value *)
}.

Definition cli0 : cli :=
  {| c_from := None; c_null_input := false; c_slurp := false; c_to := None; c_compact := false; c_join := false;
     c_in_place := false; c_sort_keys := false; c_color := false; c_mono := false; c_tab := false; c_indent := None;
     c_from_file := false; c_exit_status := false; c_version := false; c_help := false;
     c_filter := None; c_files := []; c_args := []; c_named := [] |}.

Inductive cerr := EFlag (s : string) | EKeyValue (o : string) | EInt (o : string) | EPath (o : string) | EFormat (o : string).

Definition parse_format (s : string) : option fmt :=
  if String.eqb s "raw" then Some FRaw else if String.eqb s "raw0" then Some FRaw0 else if String.eqb s "json" then Some FJson
  else if String.eqb s "cbor" then Some (FOther s) else if String.eqb s "toml" then Some (FOther s) else if String.eqb s "xml" then Some (FOther s)
  else if String.eqb s "yaml" then Some (FOther s) else if String.eqb s "csv" then Some (FOther s) else if String.eqb s "tsv" then Some (FOther s)
  else None.

(** record update helpers *)
Definition set_to (c : cli) (f : option fmt) : cli :=
  {| c_from := c_from c; c_null_input := c_null_input c; c_slurp := c_slurp c; c_to := f; c_compact := c_compact c; c_join := c_join c;
     c_in_place := c_in_place c; c_sort_keys := c_sort_keys c; c_color := c_color c; c_mono := c_mono c; c_tab := c_tab c; c_indent := c_indent c;
     c_from_file := c_from_file c; c_exit_status := c_exit_status c; c_version := c_version c; c_help := c_help c;
     c_filter := c_filter c; c_files := c_files c; c_args := c_args c; c_named := c_named c |}.
Definition set_from (c : cli) (f : option fmt) : cli :=
  {| c_from := f; c_null_input := c_null_input c; c_slurp := c_slurp c; c_to := c_to c; c_compact := c_compact c; c_join := c_join c;
     c_in_place := c_in_place c; c_sort_keys := c_sort_keys c; c_color := c_color c; c_mono := c_mono c; c_tab := c_tab c; c_indent := c_indent c;
     c_from_file := c_from_file c; c_exit_status := c_exit_status c; c_version := c_version c; c_help := c_help c;
     c_filter := c_filter c; c_files := c_files c; c_args := c_args c; c_named := c_named c |}.

(** [Cli::short]; [L] is handled by the caller (it takes an argument) *)
Definition short (c : cli) (a : ascii) : option cli :=
  let upd := fun ni sl co jo ip sk cl mo ff es ve he to =>
    Some {| c_from := c_from c; c_null_input := ni; c_slurp := sl; c_to := to; c_compact := co; c_join := jo;
            c_in_place := ip; c_sort_keys := sk; c_color := cl; c_mono := mo; c_tab := c_tab c; c_indent := c_indent c;
            c_from_file := ff; c_exit_status := es; c_version := ve; c_help := he;
            c_filter := c_filter c; c_files := c_files c; c_args := c_args c; c_named := c_named c |} in
  let same := upd (c_null_input c) (c_slurp c) (c_compact c) (c_join c) (c_in_place c) (c_sort_keys c) (c_color c) (c_mono c)
                  (c_from_file c) (c_exit_status c) (c_version c) (c_help c) in
  if Ascii.eqb a "R" then Some (set_from c (Some FRaw))
  else if Ascii.eqb a "n" then upd true (c_slurp c) (c_compact c) (c_join c) (c_in_place c) (c_sort_keys c) (c_color c) (c_mono c) (c_from_file c) (c_exit_status c) (c_version c) (c_help c) (c_to c)
  else if Ascii.eqb a "s" then upd (c_null_input c) true (c_compact c) (c_join c) (c_in_place c) (c_sort_keys c) (c_color c) (c_mono c) (c_from_file c) (c_exit_status c) (c_version c) (c_help c) (c_to c)
  else if Ascii.eqb a "r" then same (Some FRaw)
  else if Ascii.eqb a "c" then upd (c_null_input c) (c_slurp c) true (c_join c) (c_in_place c) (c_sort_keys c) (c_color c) (c_mono c) (c_from_file c) (c_exit_status c) (c_version c) (c_help c) (c_to c)
  else if Ascii.eqb a "j" then
    (* join_output = true; to.get_or_insert(Raw) *)
    upd (c_null_input c) (c_slurp c) (c_compact c) true (c_in_place c) (c_sort_keys c) (c_color c) (c_mono c) (c_from_file c) (c_exit_status c) (c_version c) (c_help c)
        (match c_to c with Some f => Some f | None => Some FRaw end)
  else if Ascii.eqb a "i" then upd (c_null_input c) (c_slurp c) (c_compact c) (c_join c) true (c_sort_keys c) (c_color c) (c_mono c) (c_from_file c) (c_exit_status c) (c_version c) (c_help c) (c_to c)
  else if Ascii.eqb a "S" then upd (c_null_input c) (c_slurp c) (c_compact c) (c_join c) (c_in_place c) true (c_color c) (c_mono c) (c_from_file c) (c_exit_status c) (c_version c) (c_help c) (c_to c)
  else if Ascii.eqb a "C" then upd (c_null_input c) (c_slurp c) (c_compact c) (c_join c) (c_in_place c) (c_sort_keys c) true (c_mono c) (c_from_file c) (c_exit_status c) (c_version c) (c_help c) (c_to c)
  else if Ascii.eqb a "M" then upd (c_null_input c) (c_slurp c) (c_compact c) (c_join c) (c_in_place c) (c_sort_keys c) (c_color c) true (c_from_file c) (c_exit_status c) (c_version c) (c_help c) (c_to c)
  else if Ascii.eqb a "f" then upd (c_null_input c) (c_slurp c) (c_compact c) (c_join c) (c_in_place c) (c_sort_keys c) (c_color c) (c_mono c) true (c_exit_status c) (c_version c) (c_help c) (c_to c)
  else if Ascii.eqb a "e" then upd (c_null_input c) (c_slurp c) (c_compact c) (c_join c) (c_in_place c) (c_sort_keys c) (c_color c) (c_mono c) (c_from_file c) true (c_version c) (c_help c) (c_to c)
  else if Ascii.eqb a "V" then upd (c_null_input c) (c_slurp c) (c_compact c) (c_join c) (c_in_place c) (c_sort_keys c) (c_color c) (c_mono c) (c_from_file c) (c_exit_status c) true (c_help c) (c_to c)
  else if Ascii.eqb a "h" then upd (c_null_input c) (c_slurp c) (c_compact c) (c_join c) (c_in_place c) (c_sort_keys c) (c_color c) (c_mono c) (c_from_file c) (c_exit_status c) (c_version c) true (c_to c)
  else None.

(** [Cli::positional]; mode: true = files, false = args *)
Definition positional (c : cli) (files_mode : bool) (a : string) : cli :=
  let mk := fun flt fs ags =>
    {| c_from := c_from c; c_null_input := c_null_input c; c_slurp := c_slurp c; c_to := c_to c; c_compact := c_compact c; c_join := c_join c;
       c_in_place := c_in_place c; c_sort_keys := c_sort_keys c; c_color := c_color c; c_mono := c_mono c; c_tab := c_tab c; c_indent := c_indent c;
       c_from_file := c_from_file c; c_exit_status := c_exit_status c; c_version := c_version c; c_help := c_help c;
       c_filter := flt; c_files := fs; c_args := ags; c_named := c_named c |} in
  match c_filter c with
  | None => mk (Some a) (c_files c) (c_args c)
  | Some f => if files_mode then mk (Some f) (c_files c ++ [a])%list (c_args c) else mk (Some f) (c_files c) (c_args c ++ [a])%list
  end.

Definition set_misc (c : cli) (tab : bool) (indent : option nat) (named : list (string * string * string)) : cli :=
  {| c_from := c_from c; c_null_input := c_null_input c; c_slurp := c_slurp c; c_to := c_to c; c_compact := c_compact c; c_join := c_join c;
     c_in_place := c_in_place c; c_sort_keys := c_sort_keys c; c_color := c_color c; c_mono := c_mono c; c_tab := tab; c_indent := indent;
     c_from_file := c_from_file c; c_exit_status := c_exit_status c; c_version := c_version c; c_help := c_help c;
     c_filter := c_filter c; c_files := c_files c; c_args := c_args c; c_named := named |}.

Fixpoint nat_of_digits (s : string) (acc : nat) : option nat :=
  match s with
  | EmptyString => Some acc
  | String ch r =>
      let n := nat_of_ascii ch in
      if (48 <=? n)%nat && (n <=? 57)%nat then nat_of_digits r (10 * acc + (n - 48)) else None
  end.

Definition parse_nat (s : string) : option nat :=
  match s with
  | EmptyString => None
  | String ch r => if Ascii.eqb ch "+" then (match r with EmptyString => None | _ => nat_of_digits r 0 end) else nat_of_digits s 0
  end.

Fixpoint shorts (c : cli) (s : string) (rest : list string) : (cli * list string) + cerr :=
  match s with
  | EmptyString => inl (c, rest)
  | String a r =>
      if Ascii.eqb a "L" then
        match rest with
        | _ :: rest' => shorts c r rest'
        | [] => inr (EPath "-L")
        end
      else match short c a with
           | Some c' => shorts c' r rest
           | None => inr (EFlag (String "-" (String a EmptyString)))
           end
  end.

Definition strip2 (s : string) : option string :=
  match s with String "-" (String "-" r) => Some r | _ => None end.
Definition strip1 (s : string) : option string :=
  match s with String "-" r => Some r | _ => None end.

(** [Cli::parse]; fuel = number of arguments *)
Fixpoint parse_args (fuel : nat) (c : cli) (files_mode : bool) (args : list string) : cli + cerr :=
  match fuel with
  | O => inl c
  | S fuel =>
      match args with
      | [] => inl c
      | a :: rest =>
          match strip2 a with
          | Some long =>
              let sh := fun ch => match short c ch with Some c' => parse_args fuel c' files_mode rest | None => inr (EFlag a) end in
              if String.eqb long "" then inl (fold_left (fun c x => positional c files_mode x) rest c)
              else if String.eqb long "from" then
                match rest with
                | f :: rest' => match parse_format f with Some x => parse_args fuel (set_from c (Some x)) files_mode rest' | None => inr (EFormat "--from") end
                | [] => inr (EFormat "--from")
                end
              else if String.eqb long "to" then
                match rest with
                | f :: rest' => match parse_format f with Some x => parse_args fuel (set_to c (Some x)) files_mode rest' | None => inr (EFormat "--to") end
                | [] => inr (EFormat "--to")
                end
              else if String.eqb long "null-input" then sh "n"%char
              else if String.eqb long "raw-input" then sh "R"%char
              else if String.eqb long "raw-input0" then parse_args fuel (set_from c (Some FRaw0)) files_mode rest
              else if String.eqb long "slurp" then sh "s"%char
              else if String.eqb long "compact-output" then sh "c"%char
              else if String.eqb long "raw-output" then sh "r"%char
              else if String.eqb long "raw-output0" then parse_args fuel (set_to c (Some FRaw0)) files_mode rest
              else if String.eqb long "join-output" then sh "j"%char
              else if String.eqb long "in-place" then sh "i"%char
              else if String.eqb long "sort-keys" then sh "S"%char
              else if String.eqb long "color-output" then sh "C"%char
              else if String.eqb long "monochrome-output" then sh "M"%char
              else if String.eqb long "tab" then parse_args fuel (set_misc c true (c_indent c) (c_named c)) files_mode rest
              else if String.eqb long "indent" then
                match rest with
                | n :: rest' => match parse_nat n with
                                | Some k => parse_args fuel (set_misc c (c_tab c) (Some k) (c_named c)) files_mode rest'
                                | None => inr (EInt "--indent")
                                end
                | [] => inr (EInt "--indent")
                end
              else if String.eqb long "from-file" then sh "f"%char
              else if String.eqb long "exit-status" then sh "e"%char
              else if String.eqb long "version" then sh "V"%char
              else if String.eqb long "help" then sh "h"%char
              else if String.eqb long "args" then parse_args fuel c false rest
              else if String.eqb long "arg" || String.eqb long "argjson" || String.eqb long "slurpfile" || String.eqb long "rawfile" then
                match rest with
                | k :: v :: rest' => parse_args fuel (set_misc c (c_tab c) (c_indent c) (c_named c ++ [(long, k, v)])%list) files_mode rest'
                | _ => inr (EKeyValue a)
                end
              else if String.eqb long "library-path" then
                match rest with _ :: rest' => parse_args fuel c files_mode rest' | [] => inr (EPath "-L") end
              else inr (EFlag a)
          | None =>
              match strip1 a with
              | Some flags =>
                  match shorts c flags rest with
                  | inl (c', rest') => parse_args fuel c' files_mode rest'
                  | inr e => inr e
                  end
              | None => parse_args fuel (positional c files_mode a) files_mode rest
              end
          end
      end
  end.

Definition parse_cli (args : list string) : cli + cerr := parse_args (S (List.length args)) cli0 true args.

(** the options of the main loop model *)
Definition indent_unit (c : cli) : bytes :=
  if c_tab c then [zb 9] else repeat (zb 32) (match c_indent c with Some n => n | None => 2 end).

Definition opts_of (c : cli) : option opts :=
  let from := match c_from c with None | Some FJson => Some InJson | Some FRaw => Some InRaw | Some FRaw0 => Some InRaw0 | Some (FOther _) => None end in
  let to := match c_to c with None | Some FJson => Some OutJson | Some FRaw => Some OutRaw | Some FRaw0 => Some OutRaw0 | Some (FOther _) => None end in
  match from, to with
  | Some f, Some t =>
      Some {| o_null_input := c_null_input c; o_slurp := c_slurp c; o_from := f; o_to := t; o_compact := c_compact c;
              o_join := c_join c; o_sort_keys := c_sort_keys c; o_indent := indent_unit c; o_exit_status := c_exit_status c |}
  | _, _ => None
  end.
