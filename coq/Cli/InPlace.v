(** `--in-place`: mirrors the [in_place] block of jaq/src/main.rs as a sequence of operations on an abstract
    directory: the input is read, a temporary file is created (exclusive) in the same directory, every output
    is written to it, and only after the filter finished without error the temporary file is renamed over the
    input and the permission bits are restored; on error the temporary file is removed (tempfile's drop). *)
From Coq Require Import ZArith Bool List Lia.
From JaqV Require Import Base.Bytes.
Import ListNotations.

Definition name := nat.           (* file names; temporaries are drawn from a disjoint range *)
Definition mode := Z.

Record file := { f_data : bytes; f_mode : mode }.
Definition dir := list (name * file).

Fixpoint lookup (d : dir) (n : name) : option file :=
  match d with
  | [] => None
  | (m, f) :: r => if Nat.eqb n m then Some f else lookup r n
  end.

Fixpoint remove (d : dir) (n : name) : dir :=
  match d with
  | [] => []
  | (m, f) :: r => if Nat.eqb n m then remove r n else (m, f) :: remove r n
  end.

Definition set (d : dir) (n : name) (f : file) : dir := (n, f) :: remove d n.

Inductive op :=
| CreateTmp (t : name)                 (* open(O_CREAT|O_EXCL, 0600) *)
| Append (t : name) (b : bytes)        (* write to the temporary file *)
| Rename (t p : name)                  (* rename(2): atomic replacement *)
| Chmod (p : name) (m : mode)
| Unlink (t : name).

Definition step (d : dir) (o : op) : dir :=
  match o with
  | CreateTmp t => set d t {| f_data := []; f_mode := 384%Z |}
  | Append t b =>
      match lookup d t with
      | Some f => set d t {| f_data := f_data f ++ b; f_mode := f_mode f |}
      | None => d
      end
  | Rename t p =>
      match lookup d t with
      | Some f => set (remove d t) p f
      | None => d
      end
  | Chmod p m =>
      match lookup d p with
      | Some f => set d p {| f_data := f_data f; f_mode := m |}
      | None => d
      end
  | Unlink t => remove d t
  end.

Definition run_ops (d : dir) (ops : list op) : dir := fold_left step ops d.

(** the result of running the filter on one file: the chunks written, and whether it finished without error
    (filter error, input parse error and write failure all end with [false]) *)
Record job := { j_path : name; j_tmp : name; j_chunks : list bytes; j_ok : bool; j_mode : mode }.

Definition ops_of (j : job) : list op :=
  CreateTmp (j_tmp j) :: map (Append (j_tmp j)) (j_chunks j)
  ++ (if j_ok j then [Rename (j_tmp j) (j_path j); Chmod (j_path j) (j_mode j)] else [Unlink (j_tmp j)]).

(** files are processed in order; the first failing one stops the run *)
Fixpoint all_ops (js : list job) : list op :=
  match js with
  | [] => []
  | j :: r => ops_of j ++ (if j_ok j then all_ops r else [])
  end.

Definition data_at (d : dir) (n : name) : option bytes := option_map f_data (lookup d n).
