(** The lexer: mirrors jaq-core/src/load/lex.rs ([Lexer::space], [token], [tokens], [block], [str], [escape], [num],
    [ident0], [ident1], [mod_then_ident], [lex]) on byte strings.  Tokens are produced flattened, as the harness prints
    them: a block contributes its opening delimiter, the tokens inside and its closing delimiter; a string is one token.
    Fuel bounds the number of steps (the length of the input suffices); [lx_err] records that some error was pushed. *)
From Coq Require Import ZArith Bool List Lia.
From Coq Require Import Init.Byte.
From JaqV Require Import Base.Bytes.
Import ListNotations.
Local Open Scope Z_scope.

Definition is_alpha_ (c : byte) : bool :=
  let z := bz c in ((97 <=? z) && (z <=? 122)) || ((65 <=? z) && (z <=? 90)) || (z =? 95).
Definition is_alnum_ (c : byte) : bool := is_alpha_ c || is_digit c.
Definition hd_op (c : byte) : bool := existsb (Z.eqb (bz c)) [124; 61; 33; 60; 62; 43; 45; 42; 47; 37].
Definition tl_op (c : byte) : bool := hd_op c && negb (bz c =? 45).

Fixpoint trim_while (f : byte -> bool) (s : bytes) : bytes :=
  match s with c :: r => if f c then trim_while f r else s | [] => [] end.

(** [str::trim_start]: Unicode white space *)
Definition ws_len (s : bytes) : nat :=
  match map bz s with
  | c :: _ => if ((9 <=? c) && (c <=? 13)) || (c =? 32) then 1%nat
              else match map bz s with
                   | 194 :: d :: _ => if (d =? 133) || (d =? 160) then 2%nat else 0%nat
                   | 225 :: 154 :: 128 :: _ => 3%nat
                   | 226 :: 128 :: d :: _ => if ((128 <=? d) && (d <=? 138)) || (d =? 168) || (d =? 169) || (d =? 175) then 3%nat else 0%nat
                   | 226 :: 129 :: 159 :: _ => 3%nat
                   | 227 :: 128 :: 128 :: _ => 3%nat
                   | _ => 0%nat
                   end
  | [] => 0%nat
  end.

Fixpoint trim_start (fuel : nat) (s : bytes) : bytes :=
  match fuel with
  | O => s
  | S fuel => match ws_len s with O => s | n => trim_start fuel (skipn n s) end
  end.

(** the rest of a comment: lines that end with an odd number of backslashes continue it *)
Fixpoint split_line (s : bytes) (acc : bytes) : bytes * bytes :=
  match s with
  | [] => (rev acc, [])
  | c :: r => if bz c =? 10 then (rev acc, r) else split_line r (c :: acc)
  end.

Fixpoint count_trailing_bs (rev_line : bytes) : nat :=
  match rev_line with c :: r => if bz c =? 92 then S (count_trailing_bs r) else O | [] => O end.

Fixpoint comment (fuel : nat) (s : bytes) : bytes :=
  match fuel with
  | O => s
  | S fuel =>
      let '(before, after) := split_line s [] in
      let rb := rev before in
      let rb := match rb with c :: r => if bz c =? 13 then r else rb | [] => rb end in
      if Nat.even (count_trailing_bs rb) then after else comment fuel after
  end.

Fixpoint space (fuel : nat) (s : bytes) : bytes :=
  match fuel with
  | O => s
  | S fuel =>
      let s := trim_start (length s) s in
      match s with
      | c :: r => if bz c =? 35 then space fuel (comment (S (length r)) r) else s
      | [] => s
      end
  end.

Definition ident0 (s : bytes) : bytes := trim_while is_alnum_ s.

(** [ident1]: rest and whether an identifier was there *)
Definition ident1 (s : bytes) : bytes * bool :=
  match s with
  | c :: r => if is_alpha_ c then (ident0 r, true) else (s, false)
  | [] => (s, false)
  end.

Definition starts2 (a b : Z) (s : bytes) : bool :=
  match s with x :: y :: _ => (bz x =? a) && (bz y =? b) | _ => false end.

Definition mod_then_ident (s : bytes) : bytes * bool :=
  let s := ident0 s in
  if starts2 58 58 s then
    let r := skipn 2 s in
    let r := match r with c :: r' => if (bz c =? 64) || (bz c =? 36) then r' else r | [] => r end in
    ident1 r
  else (s, true).

Definition digits1 (s : bytes) : bytes * bool :=
  match s with
  | c :: r => if is_digit c then (trim_while is_digit r, true) else (s, false)
  | [] => (s, false)
  end.

Definition num (s : bytes) : bytes * bool :=
  let s := trim_while is_digit s in
  let '(s, ok1) := match s with
                   | c :: r => if bz c =? 46 then digits1 r else (s, true)
                   | [] => (s, true)
                   end in
  let '(s, ok2) := match s with
                   | c :: r => if (bz c =? 101) || (bz c =? 69) then
                                 let r := match r with d :: r' => if (bz d =? 43) || (bz d =? 45) then r' else r | [] => r end in
                                 digits1 r
                               else (s, true)
                   | [] => (s, true)
                   end in
  (s, ok1 && ok2).

Definition hexdig (c : byte) : bool :=
  let z := bz c in ((48 <=? z) && (z <=? 57)) || ((97 <=? z) && (z <=? 102)) || ((65 <=? z) && (z <=? 70)).
Definition hexval (c : byte) : Z :=
  let z := bz c in if z <=? 57 then z - 48 else if z <=? 70 then z - 55 else z - 87.

(** text consumed between [start] and the remaining input [rest] *)
Definition consumed (start rest : bytes) : bytes := firstn (length start - length rest) start.

Record lres := { lx_toks : list bytes; lx_rest : bytes; lx_ok : bool }.

(** [token]: [None] when no token starts here; the flattened tokens otherwise.  [str] and [block] are inlined in the
    mutual recursion. *)
Fixpoint token (fuel : nat) (s0 : bytes) : option lres :=
  match fuel with
  | O => None
  | S fuel =>
      let s := space (S (length s0)) s0 in
      let one := fun (rest : bytes) (ok : bool) => Some {| lx_toks := [consumed s rest]; lx_rest := rest; lx_ok := ok |} in
      match s with
      | [] => None
      | c :: r =>
          let z := bz c in
          if is_alpha_ c then let '(rest, ok) := mod_then_ident r in one rest ok
          else if (z =? 36) || (z =? 64) then let '(rest, ok) := ident1 r in one rest ok
          else if is_digit c then let '(rest, ok) := num r in one rest ok
          else if hd_op c then one (trim_while tl_op r) true
          else if z =? 46 then
            match r with
            | d :: r' => if bz d =? 46 then one r' true else if is_alpha_ d then one (ident0 r') true else one r true
            | [] => one r true
            end
          else if (z =? 58) || (z =? 59) || (z =? 44) || (z =? 63) then one r true
          else if z =? 34 then
            let '(rest, ok) := str fuel r in one rest ok
          else if (z =? 40) || (z =? 91) || (z =? 123) then
            let '(inner, rest, ok) := block fuel z r in
            Some {| lx_toks := [c] :: inner; lx_rest := rest; lx_ok := ok |}
          else None
      end
  end

with tokens (fuel : nat) (s : bytes) : list bytes * bytes * bool :=
  match fuel with
  | O => ([], s, false)
  | S fuel =>
      match token fuel s with
      | None => ([], s, true)
      | Some t =>
          let '(ts, rest, ok) := tokens fuel (lx_rest t) in
          (lx_toks t ++ ts, rest, lx_ok t && ok)
      end
  end

(** the inside of a block opened by the delimiter [open], including its closing delimiter *)
with block (fuel : nat) (open : Z) (s : bytes) : list bytes * bytes * bool :=
  match fuel with
  | O => ([], s, false)
  | S fuel =>
      let close := if open =? 40 then 41 else if open =? 91 then 93 else 125 in
      let '(ts, rest, ok) := tokens fuel s in
      let rest := space (S (length rest)) rest in
      match rest with
      | c :: r => if bz c =? close then (ts ++ [[c]], r, ok) else (ts, rest, false)
      | [] => (ts, rest, false)
      end
  end

(** the inside of a string, after the opening quote: the rest after the closing quote *)
with str (fuel : nat) (s : bytes) : bytes * bool :=
  match fuel with
  | O => (s, false)
  | S fuel =>
      let s := trim_while (fun c => negb ((bz c =? 92) || (bz c =? 34))) s in
      match s with
      | [] => ([], false)                               (* unclosed *)
      | c :: r =>
          if bz c =? 34 then (r, true)
          else (* backslash *)
            match r with
            | e :: r' =>
                let z := bz e in
                if existsb (Z.eqb z) [92; 47; 34; 98; 102; 110; 114; 116] then str fuel r'
                else if z =? 117 then
                  match r' with
                  | a :: b :: c' :: d :: r'' =>
                      if hexdig a && hexdig b && hexdig c' && hexdig d then
                        let h := ((hexval a * 16 + hexval b) * 16 + hexval c') * 16 + hexval d in
                        if (55296 <=? h) && (h <=? 57343) then
                          let '(rest, _) := str fuel r' in (rest, false)          (* surrogate: error, position after \u *)
                        else str fuel r''
                      else
                        (* error at the first non-hex digit; lexing continues there *)
                        let bad := if negb (hexdig a) then r' else if negb (hexdig b) then b :: c' :: d :: r''
                                   else if negb (hexdig c') then c' :: d :: r'' else d :: r'' in
                        let '(rest, _) := str fuel bad in (rest, false)
                  | _ =>
                      let bad := trim_while hexdig r' in
                      let '(rest, _) := str fuel bad in (rest, false)
                  end
                else if z =? 40 then
                  let '(_, rest, ok) := block fuel 40 r' in
                  let '(rest', ok') := str fuel rest in (rest', ok && ok')
                else let '(rest, _) := str fuel r in (rest, false)     (* unknown escape: error, continue at it *)
            | [] => ([], false)
            end
      end
  end.

(** [Lexer::lex]: the flattened tokens, or [None] when an error was recorded *)
Definition lex (s : bytes) : option (list bytes) :=
  let n := S (S (length s)) in
  let '(ts, rest, ok) := tokens (n * 2) s in
  let rest := space (S (length rest)) rest in
  match rest with
  | [] => if ok then Some ts else None
  | _ => None
  end.
