(** Binary operators: mirrors jaq-core/src/load/prec_climb.rs ([climb], [climb1]) and, from parse.rs, the
    precedence/associativity of [BinaryOp] and [Term::climb] (a binding `as $x |` takes everything to its right). *)
From Coq Require Import ZArith Bool List Lia Arith.
From JaqV Require Import Val.Err.
Import ListNotations.

Inductive bop :=
| OPipe | OComma | OAs (pat : nat)
| OAssign | OUpdate | OUpdMath (m : mathop) | OUpdAlt
| OAlt | OOr | OAnd
| OCmp (c : cmpop) | OMath (m : mathop).

(** [impl prec_climb::Op for BinaryOp] *)
Definition prec (o : bop) : nat :=
  match o with
  | OPipe => 0 | OComma => 1 | OAs _ => 2
  | OAssign | OUpdate | OUpdMath _ | OUpdAlt => 3
  | OAlt => 4 | OOr => 5 | OAnd => 6
  | OCmp (Eq_ | Ne_) => 7
  | OCmp _ => 8
  | OMath (Add | Sub) => 9
  | OMath (Mul | Div) => 10
  | OMath Rem => 11
  end.

Definition right_assoc (o : bop) : bool :=
  match o with
  | OPipe | OAs _ | OAssign | OUpdate | OUpdMath _ | OUpdAlt => true
  | _ => false
  end.

Inductive expr := Atom (n : nat) | Bin (l : expr) (o : bop) (r : expr).

Definition chain := list (bop * expr).

(** [climb1] and its inner loop; fuel bounds the number of steps (twice the chain length suffices) *)
Fixpoint climb1 (fuel : nat) (x : expr) (rest : chain) (min_prec : nat) {struct fuel} : expr * chain :=
  match fuel with
  | O => (x, rest)
  | S fuel =>
      match rest with
      | (o, rhs) :: rest' =>
          if min_prec <=? prec o then
            let '(rhs', rest'') := inner fuel o rhs rest' in
            climb1 fuel (Bin x o rhs') rest'' min_prec
          else (x, rest)
      | [] => (x, [])
      end
  end
with inner (fuel : nat) (o : bop) (rhs : expr) (rest : chain) {struct fuel} : expr * chain :=
  match fuel with
  | O => (rhs, rest)
  | S fuel =>
      match rest with
      | (next, _) :: _ =>
          if (prec o <? prec next) || (right_assoc o && (prec next =? prec o)) then
            let '(rhs', rest') := climb1 fuel rhs rest (prec next) in
            inner fuel o rhs' rest'
          else (rhs, rest)
      | [] => (rhs, [])
      end
  end.

Definition climb_plain (x : expr) (rest : chain) : expr :=
  fst (climb1 (S (2 * length rest)) x rest 0).

(** [Term::climb]: the operand right of a binding is everything that follows *)
Fixpoint climb (fuel : nat) (x : expr) (rest : chain) : expr :=
  match fuel with
  | O => x
  | S fuel =>
      let pre := (fix pre (l : chain) : chain :=
                    match l with
                    | [] => []
                    | (OAs p, tm) :: r => [(OAs p, climb fuel tm r)]
                    | (o, tm) :: r => (o, tm) :: pre r
                    end) rest in
      climb_plain x pre
  end.

Definition parse_chain (x : expr) (rest : chain) : expr := climb (S (length rest)) x rest.

(** in-order reading of a tree: the operand/operator sequence it was built from *)
Fixpoint flat (e : expr) : list (option bop * nat) :=
  match e with
  | Atom n => [(None, n)]
  | Bin l o r => flat l ++ (match flat r with (_, n) :: t => (Some o, n) :: t | [] => [] end)
  end.
