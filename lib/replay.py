"""Re-runs the case stored in a replay file on the current /repo and on the model."""
import json
import core
import jq
from core import sx


def run(path):
    r = json.load(open(path))
    print("property:", r.get("property"), "kind:", r.get("kind"))
    if "filter" not in r or r["filter"] is None:
        print(json.dumps(r, indent=1)[:4000])
        return 0
    core.build_harness()
    core.build_model()
    jq.make_env()
    case = dict(id="r", filter=r["filter"], vars=[(n, sx.loads(v)) for n, v in r.get("vars", [])],
                inputs=[sx.loads(v) for v in r.get("inputs", ["null"])])
    res = jq.run_both([case])["r"]
    print("filter:", r["filter"])
    print("vars:", r.get("vars"))
    print("inputs:", r.get("inputs"))
    print("implementation:", sx.dumps(res["impl"]))
    print("model:         ", sx.dumps(res["model"]) if res["model"] is not None else None)
    print("classification:", jq.classify(res))
    return 0
