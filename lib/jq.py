"""Running jq programs on the implementation (harness) and on the extracted model, and comparing."""
import os
import subprocess

from core import ROOT, JAQH, JAQM, ENV, run_cases, norm_out, sx, BuildError

BUILD = os.path.join(ROOT, "build")
ENVFILE = os.path.join(BUILD, "env.sexp")


def make_env():
    """Regenerates the model's environment from /repo: native registry and the three defs.jq
    (parsed by jaq's own parser through the harness)."""
    os.makedirs(BUILD, exist_ok=True)
    cases = [["n", "natives"], ["c", "defs", "core"], ["s", "defs", "std"], ["j", "defs", "json"]]
    res = run_cases(JAQH, cases, per_case_timeout=30, shards=1)
    for k in ("n", "c", "s", "j"):
        if k not in res or (isinstance(res[k], list) and res[k] and res[k][0] in ("panic", "harness-error", "crash", "timeout")):
            raise BuildError("cannot regenerate model environment from /repo: %r" % (res.get(k),))
    with open(ENVFILE, "w") as f:
        f.write(sx.dumps(["natives", res["n"]]) + "\n")
        for k in ("c", "s", "j"):
            f.write(sx.dumps(["defs", res[k]]) + "\n")
    return dict(natives=len(res["n"]), defs=sum(len(res[k]) for k in ("c", "s", "j")))


def run_model_cases(cases, per_case_timeout=30.0):
    """like core.run_cases but the model binary gets the environment file"""
    import core
    lines = [sx.dumps(c) for c in cases]
    n = max(1, min(core.NCPU, (len(lines) + 9) // 10))
    parts = [lines[i::n] for i in range(n)]
    out = {}
    import concurrent.futures
    with concurrent.futures.ThreadPoolExecutor(max_workers=n) as ex:
        for r in ex.map(lambda part: _shard(part, per_case_timeout), parts):
            out.update(r)
    parsed = {}
    for k, v in out.items():
        try:
            parsed[k] = sx.loads(v)
        except Exception:
            parsed[k] = ["unparsable", v.encode()]
    return parsed


def _shard(lines, per_case_timeout):
    """The model driver prints no (start) lines; run the whole shard with a global time-out and
    fall back to one-by-one on trouble."""
    def once(ls, timeout):
        try:
            p = subprocess.run([JAQM, ENVFILE], input="\n".join(ls) + "\n", stdout=subprocess.PIPE,
                               stderr=subprocess.DEVNULL, text=True, timeout=timeout, env=ENV)
            rc = p.returncode
            out = p.stdout
        except subprocess.TimeoutExpired as e:
            rc = -9
            out = e.stdout.decode() if isinstance(e.stdout, bytes) else (e.stdout or "")
        res = {}
        for ln in out.split("\n"):
            if "\t" in ln:
                cid, r = ln.split("\t", 1)
                res[cid] = r
        return rc, res

    rc, res = once(lines, per_case_timeout * max(4, len(lines) // 4))
    ids = [sx.loads(ln)[0] for ln in lines]
    missing = [ln for ln, i in zip(lines, ids) if i not in res]
    if missing:
        for ln in missing:
            i = sx.loads(ln)[0]
            rc, r1 = once([ln], per_case_timeout)
            res[i] = r1.get(i, "(model-timeout)" if rc == -9 else "(model-crash)")
    return res


def run_both(cases, limit=64, fuel=600, per_case_timeout=10.0):
    """cases: list of dict(id, filter(str|bytes), vars=[(name, val)], inputs=[val]).
    Returns {id: dict(impl=..., model=..., tree=...)}"""
    impl_cases = []
    for c in cases:
        flt = c["filter"].encode() if isinstance(c["filter"], str) else c["filter"]
        vs = [[n, v] for n, v in c.get("vars", [])]
        impl_cases.append([c["id"], "run", flt, vs, c.get("inputs", ["null"]), str(c.get("limit", limit))] + (["stop"] if c.get("stop") else []))
        impl_cases.append([c["id"] + ".p", "parse", flt])
    impl = run_cases(JAQH, impl_cases, per_case_timeout)
    model_cases = []
    for c in cases:
        tree = impl.get(c["id"] + ".p")
        if isinstance(tree, list) and tree and tree[0] == "ok":
            vs = [[n, v] for n, v in c.get("vars", [])]
            model_cases.append([c["id"], "run", tree[1], vs, c.get("inputs", ["null"]), str(c.get("limit", limit)), str(c.get("fuel", fuel))])
    model = run_model_cases(model_cases)
    out = {}
    for c in cases:
        out[c["id"]] = dict(impl=impl.get(c["id"]), model=model.get(c["id"]), tree=impl.get(c["id"] + ".p"))
    return out


MARK = b"\xffERR"


def has_marker(x):
    if isinstance(x, bytes):
        return MARK in x
    if isinstance(x, list):
        return any(has_marker(y) for y in x)
    return False


def classify(r):
    """-> 'agree' | 'unmodelled' | 'inconclusive' | 'disagree' for one run_both entry"""
    impl, model = r["impl"], r["model"]
    if model is None:
        # not parsed by jaq: compile error expected on the implementation side
        if isinstance(impl, list) and len(impl) > 2 and impl[2] == "compile-error":
            return "agree"
        return "unmodelled"
    if not (isinstance(model, list) and model and model[0] == "out"):
        return "unmodelled" if model and model[0] in ("unmodelled", "model-error", "model-timeout", "model-crash") else "disagree"
    mterm = model[2]
    if mterm == "unmodelled" or has_marker(model):
        return "unmodelled"
    if not (isinstance(impl, list) and impl and impl[0] == "out"):
        # panic / timeout / crash on the implementation
        if mterm == "bot" and impl[0] in ("timeout", "crash"):
            return "agree"
        if impl[0] in ("timeout",) and mterm == "cut":
            return "inconclusive"
        return "disagree"
    a, b = norm_out(impl), norm_out(model)
    # errors of natives whose message text is outside the model: any error matches
    if isinstance(b[2], list) and b[2][0] == "errc" and b[2][1].startswith("other") and isinstance(a[2], list) and a[2][0] in ("err", "errc"):
        a = [a[0], a[1], b[2]]
    # a built-in error whose message the implementation words differently is still that error: the properties fix no message text
    if isinstance(b[2], list) and b[2][0] == "errc" and isinstance(a[2], list) and a[2][0] == "err":
        a = [a[0], a[1], b[2]]
    if mterm == "bot":
        # the model ran out of fuel: its items must be a prefix of the implementation's
        n = len(b[1])
        return "inconclusive" if a[1][:n] == b[1] else "disagree"
    return "agree" if a == b else "disagree"
