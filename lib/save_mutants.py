#!/usr/bin/env python3
"""save_mutants.py <id> <PROP> <caught1> <caught2> <caught3>: copies /tmp/mut-<id>/m*/ into seeded/ with meta.json"""
import json, os, shutil, sys
mid, prop = sys.argv[1], sys.argv[2]
caught = sys.argv[3:]
for i in (1, 2, 3):
    src = "/tmp/mut-%s/m%d" % (mid, i)
    if not os.path.isdir(src):
        continue
    d = "/verif/seeded/%s-m%d" % (mid, i)
    os.makedirs(d, exist_ok=True)
    for f in ("patch.diff", "demo.sh", "notes.txt"):
        shutil.copy(os.path.join(src, f), d)
    notes = open(os.path.join(d, "notes.txt")).read()
    json.dump(dict(property=prop, breaks_and_needs=notes[:2000],
                   confirmed=dict(see="confirm.txt (scratch worktree: build, test suite, demo with/without patch)",
                                  check_run="lib/seedtest.sh seeded/%s-m%d/patch.diff %s -> VIOLATION reported; clean tree -> exit 0" % (mid, i, prop)),
                   caught_by=caught[i - 1] if i - 1 < len(caught) else ""), open(os.path.join(d, "meta.json"), "w"), indent=1)
print("saved")
