#!/bin/sh
# usage: confirm_seeded.sh <seeded-dir>...   (confirms in a scratch worktree: builds, test suite passes, demo fails with / passes without)
for d in "$@"; do
  name=$(basename "$d")
  wt=/tmp/confirm-$name
  git -C /repo worktree add -q "$wt" HEAD 2>/dev/null || { echo "$name: cannot create worktree"; continue; }
  out="$d/confirm.txt"
  {
    echo "confirmed at /repo commit $(git -C /repo rev-parse --short HEAD)"
    cd "$wt" || exit 1
    export JAQ="$wt/target/debug/jaq"
    export JAQ_SRC="$wt"
    SH=sh; head -1 "$d/demo.sh" | grep -q bash && SH=bash      # honour the interpreter the demo names
    CARGO_NET_OFFLINE=true cargo build --offline -q -p jaq 2>&1 | tail -2
    $SH "$d/demo.sh" >/dev/null 2>&1; echo "demo on clean tree: exit $?"
    if git apply "$d/patch.diff"; then
      CARGO_NET_OFFLINE=true cargo build --offline -q -p jaq 2>&1 | tail -2; echo "build with patch: exit $?"
      $SH "$d/demo.sh" >/dev/null 2>&1; echo "demo with patch: exit $?"
      CARGO_NET_OFFLINE=true cargo test --workspace --offline -q 2>&1 | grep -E "test result" | awk '{p+=$4; f+=$6} END {print "test suite with patch: passed " p ", failed " f}'
    else
      echo "patch does not apply"
    fi
  } > "$out" 2>&1
  cd /
  git -C /repo worktree remove --force "$wt"
  echo "$name done"
done
