#!/bin/sh
# build every Coq file (incl. all Props), regenerate and validate the manifest; refuse to go on when anything fails
cd /verif || exit 1
( cd coq && coq_makefile -f _CoqProject -o Makefile >/dev/null && timeout 3000 make -j16 2>&1 | grep -v "^COQ\|^Closed under\|^Axioms:\|^  \|functional_extensionality\|^ *:\|warning\|Warning\|opaque\|extraction" | head -20 ; test ${PIPESTATUS:-0} -eq 0 ) 
( cd coq && timeout 3000 make -j16 >/dev/null 2>&1 ) || { echo "COQ BUILD FAILED"; exit 1; }
python3 lib/manifest_gen.py || exit 1
python3-vt -c "
import json, jsonschema, glob
jsonschema.validate(json.load(open('MANIFEST.json')), json.load(open('/root/.vp/MANIFEST.schema.json')))
for f in glob.glob('evidence/*.json'):
    jsonschema.validate(json.load(open(f)), json.load(open('/root/.vp/EVIDENCE.schema.json')))
print('manifest and evidence valid')" || exit 1
echo PRECOMMIT-OK
