"""Running the `jaq` binary built from /repo."""
import concurrent.futures
import os
import subprocess
import core

_BIN = None


def jaq_bin():
    global _BIN
    if _BIN is None:
        _BIN = core.build_jaq_bin()
    return _BIN


def run_one(args, stdin=b"", cwd=None, timeout=20, env=None, merge=False):
    e = dict(os.environ)
    e["RUST_BACKTRACE"] = "0"
    e["NO_COLOR"] = "1"
    if env:
        e.update(env)
    try:
        p = subprocess.run([jaq_bin()] + list(args), input=stdin, stdout=subprocess.PIPE, stderr=subprocess.STDOUT if merge else subprocess.PIPE,
                           cwd=cwd, timeout=timeout, env=e)
        return p.returncode, p.stdout, p.stderr or b""
    except subprocess.TimeoutExpired:
        return -999, b"", b"timeout"


def run_many(jobs, workers=None):
    """jobs: list of dict(args=[...], stdin=b'', cwd=None) -> list of (rc, out, err)"""
    jaq_bin()
    with concurrent.futures.ThreadPoolExecutor(max_workers=workers or core.NCPU) as ex:
        res = list(ex.map(lambda j: run_one(j["args"], j.get("stdin", b""), j.get("cwd"), j.get("timeout", 20), j.get("env"), j.get("merge", False)), jobs))
    # a time-out under load is not a result: such runs are repeated alone with three times the time
    for i, (j, r) in enumerate(zip(jobs, res)):
        if r[0] == -999:
            res[i] = run_one(j["args"], j.get("stdin", b""), j.get("cwd"), 3 * j.get("timeout", 20), j.get("env"), j.get("merge", False))
    return res


def dialogue(args, answers, timeout=10, cwd=None):
    """runs jaq with pipes on both sides and sends the k-th answer only after the k-th line of output has arrived;
    returns (lines read, status) or (lines read so far, "stalled") when an expected line does not arrive in time"""
    import select
    e = dict(os.environ)
    e["RUST_BACKTRACE"] = "0"
    e["NO_COLOR"] = "1"
    p = subprocess.Popen([jaq_bin()] + list(args), stdin=subprocess.PIPE, stdout=subprocess.PIPE, stderr=subprocess.DEVNULL, cwd=cwd, env=e, bufsize=0)
    lines, buf = [], b""
    try:
        for a in answers:
            while b"\n" not in buf:
                r, _, _ = select.select([p.stdout], [], [], timeout)
                if not r:
                    return lines, "stalled"
                chunk = os.read(p.stdout.fileno(), 4096)
                if not chunk:
                    return lines, "closed"
                buf += chunk
            line, buf = buf.split(b"\n", 1)
            lines.append(line)
            if a is not None:
                p.stdin.write(a)
                p.stdin.flush()
        p.stdin.close()
        rest = buf + p.stdout.read()
        lines += [l for l in rest.split(b"\n") if l]
        return lines, p.wait(timeout=timeout)
    except (BrokenPipeError, subprocess.TimeoutExpired):
        return lines, "broken"
    finally:
        try:
            p.kill()
        except OSError:
            pass
        p.wait()
