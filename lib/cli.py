"""Running the `jaq` binary built from /repo."""
import concurrent.futures
import os
import subprocess
import core

_BIN = None


def jaq_bin():
    global _BIN
    if _BIN is None:
        _BIN = core.build_jaq_bin()
    return _BIN


def run_one(args, stdin=b"", cwd=None, timeout=20, env=None):
    e = dict(os.environ)
    e["RUST_BACKTRACE"] = "0"
    e["NO_COLOR"] = "1"
    if env:
        e.update(env)
    try:
        p = subprocess.run([jaq_bin()] + list(args), input=stdin, stdout=subprocess.PIPE, stderr=subprocess.PIPE,
                           cwd=cwd, timeout=timeout, env=e)
        return p.returncode, p.stdout, p.stderr
    except subprocess.TimeoutExpired:
        return -999, b"", b"timeout"


def run_many(jobs, workers=None):
    """jobs: list of dict(args=[...], stdin=b'', cwd=None) -> list of (rc, out, err)"""
    jaq_bin()
    with concurrent.futures.ThreadPoolExecutor(max_workers=workers or core.NCPU) as ex:
        res = list(ex.map(lambda j: run_one(j["args"], j.get("stdin", b""), j.get("cwd"), j.get("timeout", 20), j.get("env")), jobs))
    # a time-out under load is not a result: such runs are repeated alone with three times the time
    for i, (j, r) in enumerate(zip(jobs, res)):
        if r[0] == -999:
            res[i] = run_one(j["args"], j.get("stdin", b""), j.get("cwd"), 3 * j.get("timeout", 20), j.get("env"))
    return res
