#!/usr/bin/env python3
"""Regenerates the table of seeded changes at the end of DESIGN.md from seeded/*/meta.json."""
import glob, json, os
ROOT = os.path.dirname(os.path.dirname(os.path.abspath(__file__)))
rows = []
for d in sorted(glob.glob(os.path.join(ROOT, "seeded", "*"))):
    m = json.load(open(os.path.join(d, "meta.json")))
    notes = [l for l in open(os.path.join(d, "notes.txt")).read().split("\n") if l.strip()]
    first = (notes[0] if notes else "")[:170].replace("|", "/")
    rows.append("| %s | %s | %s | %s |" % (os.path.basename(d), m["property"], first, (m.get("caught_by") or "").replace("|", "/")[:260]))
table = "| seeded change | property | what it does (first line of its notes) | caught by |\n|---|---|---|---|\n" + "\n".join(rows) + "\n"
p = os.path.join(ROOT, "DESIGN.md")
s = open(p).read()
marker = "<!-- seeded table -->"
if "@SEEDED_TABLE@" in s:
    s = s.replace("@SEEDED_TABLE@", marker + "\n" + table)
else:
    i = s.index(marker)
    s = s[:i] + marker + "\n" + table
open(p, "w").write(s)
print(len(rows), "seeded changes")
