"""Shared machinery of the checks: building, running the implementation harness and the extracted
model on case files, re-checking the Coq proofs, auditing them, writing evidence and replays."""
import concurrent.futures
import hashlib
import json
import os
import re
import subprocess
import tempfile
import sys
import threading
import time

ROOT = os.path.dirname(os.path.dirname(os.path.abspath(__file__)))
sys.path.insert(0, os.path.join(ROOT, "gen"))
import sx  # noqa: E402

REPO = os.environ.get("JAQ_REPO", "/repo")
COQ = os.path.join(ROOT, "coq")
HARNESS = os.path.join(ROOT, "harness")
OCAML = os.path.join(ROOT, "ocaml")
JAQH = os.path.join(HARNESS, "target", "debug", "jaqh")
JAQH_REL = os.path.join(HARNESS, "target", "release", "jaqh")
JAQM = os.path.join(OCAML, "jaqm")
NCPU = min(16, os.cpu_count() or 4)

ENV = dict(os.environ)
ENV["CARGO_NET_OFFLINE"] = "true"
ENV["RUST_BACKTRACE"] = "0"


class BuildError(Exception):
    pass


def sh(cmd, cwd=None, timeout=3600, env=None, check=True):
    p = subprocess.run(cmd, cwd=cwd, env=env or ENV, stdout=subprocess.PIPE, stderr=subprocess.STDOUT,
                       timeout=timeout, shell=isinstance(cmd, str), text=True, errors="replace")
    if check and p.returncode != 0:
        raise BuildError("command failed (%s): %s\n%s" % (p.returncode, cmd, p.stdout[-4000:]))
    return p


# --------------------------------------------------------------------------------------------
# building
# --------------------------------------------------------------------------------------------

def build_harness(release=False):
    """Rebuilds the harness (and through its path dependencies the crates of /repo's working tree)."""
    lock = os.path.join(HARNESS, "Cargo.lock")
    src = os.path.join(REPO, "Cargo.lock")
    if os.path.exists(src):
        with open(src) as f:
            want = f.read()
        have = open(lock).read() if os.path.exists(lock) else None
        if have is None:
            with open(lock, "w") as f:
                f.write(want)
    cmd = ["cargo", "build", "--offline", "--quiet"] + (["--release"] if release else [])
    p = sh(cmd, cwd=HARNESS, check=False, timeout=3000)
    if p.returncode != 0:
        raise BuildError("harness does not build against /repo:\n" + p.stdout[-3000:])


def build_jaq_bin():
    """Builds the `jaq` binary from /repo's working tree into a target dir under /verif."""
    tgt = os.path.join(ROOT, "harness", "target-jaq")
    p = sh(["cargo", "build", "--offline", "--quiet", "-p", "jaq", "--target-dir", tgt], cwd=REPO,
           check=False, timeout=3000)
    if p.returncode != 0:
        raise BuildError("jaq does not build:\n" + p.stdout[-3000:])
    return os.path.join(tgt, "debug", "jaq")


def coq_make(targets=None, timeout=3000):
    """Full .vo build of the requested targets (default: everything in _CoqProject)."""
    if not os.path.exists(os.path.join(COQ, "Makefile")) or \
            os.path.getmtime(os.path.join(COQ, "Makefile")) < os.path.getmtime(os.path.join(COQ, "_CoqProject")):
        sh(["coq_makefile", "-f", "_CoqProject", "-o", "Makefile"], cwd=COQ)
    cmd = ["make", "-j%d" % NCPU] + (targets or [])
    return sh(cmd, cwd=COQ, check=False, timeout=timeout)


def build_model():
    p = coq_make(["Extract/Extract.vo"])
    if p.returncode != 0:
        raise BuildError("Coq model does not build:\n" + p.stdout[-3000:])
    ml = os.path.join(COQ, "jaqmodel.ml")
    if (not os.path.exists(JAQM)) or os.path.getmtime(JAQM) < os.path.getmtime(ml) \
            or os.path.getmtime(JAQM) < os.path.getmtime(os.path.join(OCAML, "driver.ml")):
        sh(["sh", os.path.join(OCAML, "build.sh")], cwd=OCAML)


# --------------------------------------------------------------------------------------------
# running case files
# --------------------------------------------------------------------------------------------

MEMLIMIT = 0   # bytes of address space for harness processes (0 = unlimited); set by checks that provoke huge allocations


def limited(argv):
    """argv run under the address-space limit (through the shell: preexec_fn is not safe with threads)"""
    if not MEMLIMIT:
        return argv
    return ["/bin/sh", "-c", "ulimit -v %d; exec \"$0\" \"$@\"" % (MEMLIMIT // 1024)] + list(argv)


def _run_shard(binary, lines, per_case_timeout, env=None):
    """Feeds `lines` (each '(id cmd ...)') to `binary`; returns {id: result-sexp-text}.
    The harness prints '<id>\t(start)' before each case so that a crash or time-out is attributed."""
    results = {}
    todo = list(lines)
    ids = [sx.loads(ln)[0] for ln in todo]
    pos = 0
    while pos < len(todo):
        errf = tempfile.TemporaryFile() if MEMLIMIT else None
        proc = subprocess.Popen(limited([binary]), stdin=subprocess.PIPE, stdout=subprocess.PIPE,
                                stderr=errf if errf is not None else subprocess.DEVNULL, env=env or ENV, text=True, errors="replace")
        chunk = todo[pos:]

        def feed(p=proc, c=chunk):
            try:
                for ln in c:
                    p.stdin.write(ln + "\n")
                p.stdin.close()
            except (BrokenPipeError, OSError):
                pass

        th = threading.Thread(target=feed, daemon=True)
        th.start()
        started = None
        last = time.time()
        state = {"line": None}

        def reader(p=proc):
            for ln in p.stdout:
                state.setdefault("q", []).append(ln)

        # simple polling reader with timeout
        import selectors
        sel = selectors.DefaultSelector()
        sel.register(proc.stdout, selectors.EVENT_READ)
        buf = ""
        killed = False
        eof = False
        while not eof:
            ev = sel.select(timeout=1.0)
            if ev:
                data = os.read(proc.stdout.fileno(), 1 << 16).decode("utf-8", "replace")
                if data == "":
                    eof = True
                buf += data
                while "\n" in buf:
                    ln, buf = buf.split("\n", 1)
                    if "\t" not in ln:
                        continue
                    cid, res = ln.split("\t", 1)
                    if res == "(start)":
                        started = cid
                        last = time.time()
                    else:
                        results[cid] = res
                        started = None
                        last = time.time()
            elif started is not None and time.time() - last > per_case_timeout:
                proc.kill()
                killed = True
                break
        sel.close()
        try:
            proc.wait(timeout=10)
        except subprocess.TimeoutExpired:
            proc.kill()
        # where do we resume?
        done = sum(1 for i in ids[pos:] if i in results)
        if killed and started is not None:
            results[started] = "(timeout)"
        elif started is not None and started not in results:
            why = ""
            if errf is not None:
                errf.seek(0)
                tail = errf.read()[-400:]
                why = " memory" if b"memory allocation of" in tail else (" stack" if b"overflowed its stack" in tail else "")
            results[started] = "(crash %s%s)" % (proc.returncode, why)
        elif done == len(ids) - pos:
            break
        # resume after the last case that has a result
        newpos = pos
        while newpos < len(ids) and ids[newpos] in results:
            newpos += 1
        if newpos == pos:
            # no progress at all: mark and skip one case to guarantee termination
            results[ids[pos]] = "(crash no-output)"
            newpos = pos + 1
        pos = newpos
    return results


def run_cases(binary, cases, per_case_timeout=10.0, shards=None, env=None):
    """cases: list of sexp lists `[id, cmd, ...]`; returns {id: parsed result}."""
    lines = [sx.dumps(c) for c in cases]
    shards = shards or NCPU
    n = max(1, min(shards, (len(lines) + 19) // 20))
    parts = [lines[i::n] for i in range(n)]
    out = {}
    with concurrent.futures.ThreadPoolExecutor(max_workers=n) as ex:
        for r in ex.map(lambda part: _run_shard(binary, part, per_case_timeout, env), parts):
            out.update(r)
    parsed = {}
    for k, v in out.items():
        try:
            parsed[k] = sx.loads(v)
        except Exception:
            parsed[k] = ["unparsable", v.encode()]
    return parsed


def run_impl(cases, per_case_timeout=10.0, release=False):
    return run_cases(JAQH_REL if release else JAQH, cases, per_case_timeout)


def run_model(cases, per_case_timeout=20.0):
    return run_cases(JAQM, cases, per_case_timeout)


# --------------------------------------------------------------------------------------------
# comparing results
# --------------------------------------------------------------------------------------------

ERR_PREFIXES = [
    (b"cannot calculate ", "math"),
    (b"cannot use ", "type"),
    (b"cannot index ", "index"),
    (b"invalid path expression", "pathexpr"),
    (b"index ", "oob"),
]


def norm_term(t):
    """Terminator of an output stream, errors reduced to classes (never message text)."""
    if isinstance(t, list) and t and t[0] == "err":
        v = t[1]
        if isinstance(v, list) and v and v[0] == "S" and isinstance(v[1], bytes):
            for pre, cls in ERR_PREFIXES:
                if v[1].startswith(pre):
                    if cls == "oob" and not v[1].endswith(b"out of bounds"):
                        continue
                    return ["errc", cls]
        return t
    return t


def norm_out(r):
    """(out (items) term [consumed]) -> comparable form."""
    if not (isinstance(r, list) and r and r[0] == "out"):
        return r
    return ["out", r[1], norm_term(r[2])]


# --------------------------------------------------------------------------------------------
# proofs
# --------------------------------------------------------------------------------------------

ALLOWED_AXIOMS = {
    # standard library axioms that may appear (named in DESIGN.md section 8)
    "functional_extensionality_dep", "FunctionalExtensionality.functional_extensionality_dep",
    "Coq.Logic.FunctionalExtensionality.functional_extensionality_dep",
}

FORBIDDEN = re.compile(
    r"\b(Admitted|admit|Axiom|Axioms|Parameter|Parameters|Conjecture|Conjectures|Unset\s+Guard|bypass_check|"
    r"Admit\s+Obligations|Unset\s+Positivity|Unset\s+Universe\s+Checking|type-in-type|impredicative-set|give_up)\b")


def strip_comments(text):
    out = []
    depth = 0
    i = 0
    while i < len(text):
        if text.startswith("(*", i):
            depth += 1
            i += 2
        elif text.startswith("*)", i) and depth > 0:
            depth -= 1
            i += 2
        else:
            if depth == 0:
                out.append(text[i])
            i += 1
    return "".join(out)


def audit_sources():
    """No Admitted/Axiom/... anywhere in the development; Variable/Hypothesis only inside sections."""
    problems = []
    for dirpath, _dirs, files in os.walk(COQ):
        for fn in files:
            if not fn.endswith(".v"):
                continue
            path = os.path.join(dirpath, fn)
            text = strip_comments(open(path).read())
            for m in FORBIDDEN.finditer(text):
                problems.append("%s: forbidden keyword %s" % (os.path.relpath(path, COQ), m.group(1)))
            # Variable / Hypothesis outside a section
            depth = 0
            for stmt in re.split(r"\.\s", text):
                s = stmt.strip()
                if re.match(r"^Section\s", s):
                    depth += 1
                elif re.match(r"^End\s", s) and depth > 0:
                    depth -= 1
                elif depth == 0 and re.match(r"^(Variable|Variables|Hypothesis|Hypotheses|Context)\s", s):
                    problems.append("%s: %s outside a section" % (os.path.relpath(path, COQ), s.split()[0]))
    return problems


def check_props(prop, tier="quick"):
    """Re-checks Props/<prop>.v (always recompiled) and everything it depends on.
    Returns dict(obligations, discharged, theorems, assumptions, ok, log, problems)."""
    vfile = os.path.join(COQ, "Props", prop + ".v")
    text = strip_comments(open(vfile).read())
    theorems = re.findall(r"\bTheorem\s+([A-Za-z0-9_']+)", text)
    vo = os.path.join(COQ, "Props", prop + ".vo")
    if os.path.exists(vo):
        os.remove(vo)
    t0 = time.time()
    p = coq_make(["Props/%s.vo" % prop])
    log = p.stdout
    ok = p.returncode == 0 and os.path.exists(vo)
    problems = []
    assumptions = {}
    if ok:
        # Print Assumptions output: "Closed under the global context" or "Axioms:\n name : type ..."
        # we print a marker before each via `Check name : stmt.` so parse sequentially
        blocks = re.split(r"(?m)^(?=Closed under the global context|Axioms:)", log)
        found = []
        for b in blocks:
            if b.startswith("Closed under the global context"):
                found.append([])
            elif b.startswith("Axioms:"):
                names = re.findall(r"(?m)^([A-Za-z0-9_.']+)\s*:", b[len("Axioms:"):])
                found.append(names)
        if len(found) < len(theorems):
            problems.append("Print Assumptions missing for some theorems (%d of %d)" % (len(found), len(theorems)))
        for th, ax in zip(theorems, found):
            assumptions[th] = ax
            for a in ax:
                if a not in ALLOWED_AXIOMS and a.split(".")[-1] not in ALLOWED_AXIOMS:
                    problems.append("theorem %s depends on non-allow-listed axiom %s" % (th, a))
    else:
        m = re.search(r'File "([^"]+)", line (\d+)[^\n]*\n(Error:[^\n]*(\n[^\n]+){0,6})', log)
        problems.append("proof build failed: " + (m.group(0)[:600] if m else log[-600:]))
    problems += audit_sources()
    coqchk = None
    if ok and tier == "thorough":
        # the independent checker re-checks the compiled property file and everything it depends on
        q = sh(["coqchk", "-silent", "-o", "-Q", COQ, "JaqV", "JaqV.Props." + prop], cwd=COQ, check=False, timeout=3000)
        out = q.stdout
        coqchk = dict(status=q.returncode, axioms=[], tail=out[-400:])
        if q.returncode != 0:
            problems.append("coqchk rejects Props/%s.vo: %s" % (prop, out[-400:]))
        else:
            m = re.search(r"\* Axioms:(.*?)\n\s*\n\* ", out, re.S)
            names = [x.strip() for x in (m.group(1).split("\n") if m else []) if x.strip() and x.strip() != "<none>"]
            coqchk["axioms"] = names
            for a in names:
                if a.split(".")[-1] not in ALLOWED_AXIOMS and a not in ALLOWED_AXIOMS:
                    problems.append("coqchk: %s relies on the axiom %s" % (prop, a))
            for flag in ("type-in-type", "unsafe (co)fixpoints", "positivity is assumed"):
                mm = re.search(re.escape(flag) + r":\s*(.*)", out)
                if mm and "<none>" not in mm.group(1):
                    problems.append("coqchk: %s: %s" % (flag, mm.group(1)[:100]))
    discharged = len(theorems) if ok and not problems else 0
    if ok and problems:
        # theorems compiled but audit complains: count those not implicated
        bad = set()
        for pr in problems:
            m = re.match(r"theorem (\S+) depends", pr)
            if m:
                bad.add(m.group(1))
        if all(pr.startswith("theorem ") for pr in problems):
            discharged = len(theorems) - len(bad)
    return dict(obligations=len(theorems), discharged=discharged, theorems=theorems, assumptions=assumptions,
                ok=ok and not problems, log=log, problems=problems, wall_s=time.time() - t0, coqchk=coqchk)


# --------------------------------------------------------------------------------------------
# known findings, replays, evidence
# --------------------------------------------------------------------------------------------

def load_known():
    known = []
    path = os.path.join(ROOT, "known-findings.txt")
    if os.path.exists(path):
        for ln in open(path):
            ln = ln.strip()
            if ln.startswith("known:"):
                m = re.match(r"known:\s+property=(\S+)\s+key=(\S+)\s+(.*)", ln)
                if m:
                    known.append(dict(property=m.group(1), key=m.group(2), what=m.group(3)))
    return known


def write_replay(prop, payload):
    os.makedirs(os.path.join(ROOT, "replays"), exist_ok=True)
    blob = json.dumps(payload, sort_keys=True, indent=1, default=lambda b: b.decode("latin-1") if isinstance(b, bytes) else str(b))
    h = hashlib.sha1(blob.encode()).hexdigest()[:10]
    rel = os.path.join("replays", "%s-%s.json" % (prop, h))
    with open(os.path.join(ROOT, rel), "w") as f:
        f.write(blob + "\n")
    return rel


def write_evidence(prop, tier, seed, coverage, assumptions, wall_s, violations):
    os.makedirs(os.path.join(ROOT, "evidence"), exist_ok=True)
    ev = dict(property_id=prop, tier=tier, seed=seed, level="proof", coverage=coverage,
              assumptions=assumptions, wall_s=round(wall_s, 2), violations=violations)
    with open(os.path.join(ROOT, "evidence", prop + ".json"), "w") as f:
        json.dump(ev, f, indent=1, default=lambda b: b.decode("latin-1") if isinstance(b, bytes) else str(b))
        f.write("\n")


TRUSTED_BASE = [
    "Coq 8.16.1 kernel (coqc, full .vo build; no native_compute; vm_compute for finite sweeps)",
    "axioms under the property theorems: see coverage.print_assumptions (allow-list: functional_extensionality_dep)",
    "Coq standard library Floats.SpecFloat as the executable definition of IEEE-754 binary64 arithmetic",
    "extraction (ExtrOcamlBasic only; no Extract Constant / Extract Inductive of our own) + ocaml/driver.ml glue",
    "correspondence check: harness/ (Rust, path dependencies on /repo crates, rebuilt each run) vs extracted model on generated cases",
    "modelled, not verified: third-party crates (num-bigint, indexmap/hashbrown/foldhash, bstr, ryu, f64 parsing), Rust core iterators",
]
