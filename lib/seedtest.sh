#!/bin/sh
# usage: seedtest.sh <patch.diff> <property> [more properties...]
# applies the patch to /repo, runs the quick checks, restores /repo
patch="$1"; shift
cd /repo || exit 2
git apply --check "$patch" || { echo "PATCH DOES NOT APPLY"; exit 2; }
git apply "$patch"
cd /verif
for p in "$@"; do
  echo "== $p"
  # the evidence committed under evidence/ describes runs on the unchanged tree: keep it aside while a seeded change is applied
  cp "evidence/$p.json" "/tmp/seedtest.$$.$p.evidence" 2>/dev/null
  # a check that ends in a Python traceback has decided nothing: say so instead of looking as if the change was missed
  ./jv check "$p" --tier quick 2>&1 | grep -E "^(VIOLATION|KNOWN-FINDING|Traceback|[A-Za-z]*Error:)" | head -5 > /tmp/seedtest.$$.out
  cat /tmp/seedtest.$$.out
  # what each replay says (the replay files are overwritten by later runs)
  sed -n 's/^VIOLATION .*replay=\([^ ]*\).*/\1/p' /tmp/seedtest.$$.out | while read r; do
    python3 -c "import json,sys; r=json.load(open(sys.argv[1])); print('  WHAT', (r.get('key') or ''), '|', str(r.get('what'))[:220].replace(chr(10),' '))" "$r" 2>/dev/null
  done
  rm -f /tmp/seedtest.$$.out
  [ -f "/tmp/seedtest.$$.$p.evidence" ] && mv "/tmp/seedtest.$$.$p.evidence" "evidence/$p.json"
done
cd /repo && git checkout -- . 
