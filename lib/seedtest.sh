#!/bin/sh
# usage: seedtest.sh <patch.diff> <property> [more properties...]
# applies the patch to /repo, runs the quick checks, restores /repo
patch="$1"; shift
cd /repo || exit 2
git apply --check "$patch" || { echo "PATCH DOES NOT APPLY"; exit 2; }
git apply "$patch"
cd /verif
for p in "$@"; do
  echo "== $p"
  ./jv check "$p" --tier quick 2>&1 | grep -E "^(VIOLATION|KNOWN-FINDING)" | head -5
  echo "exit=$?"
done
cd /repo && git checkout -- . 
