"""Reads the Debug dump of jaq's compiled `Filter<()>` (look-up table) and unfolds it into a forest in
the same shape as the model's compiler output, with definitions numbered by first visit."""
import re

TOKEN = re.compile(r'\s*(?:(?P<id>[A-Za-z_][A-Za-z0-9_]*)|(?P<num>-?\d+)|(?P<str>"(?:[^"\\]|\\.)*")|(?P<p>[()\[\]{},:]))')


def tokenize(s):
    pos = 0
    out = []
    while pos < len(s):
        m = TOKEN.match(s, pos)
        if not m:
            if s[pos:].strip() == "":
                break
            raise ValueError("cannot tokenize at %d: %r" % (pos, s[pos:pos + 30]))
        pos = m.end()
        if m.group("id") is not None:
            out.append(("id", m.group("id")))
        elif m.group("num") is not None:
            out.append(("num", m.group("num")))
        elif m.group("str") is not None:
            out.append(("str", unescape(m.group("str")[1:-1])))
        else:
            out.append(("p", m.group("p")))
    return out


def unescape(s):
    out = bytearray()
    i = 0
    while i < len(s):
        c = s[i]
        if c == "\\":
            d = s[i + 1]
            i += 2
            if d == "n":
                out += b"\n"
            elif d == "t":
                out += b"\t"
            elif d == "r":
                out += b"\r"
            elif d == "0":
                out += b"\0"
            elif d == "u":
                j = s.index("}", i)
                out += chr(int(s[i + 1:j], 16)).encode("utf-8")
                i = j + 1
            else:
                out += d.encode("utf-8")
        else:
            out += c.encode("utf-8")
            i += 1
    return bytes(out)


def parse(tokens, i=0):
    """-> (node, next). node: ('id', name, args|None, fields|None) | ('num', s) | ('str', b) | ('list', [..]) | ('tuple', [..])"""
    k, v = tokens[i]
    if k == "id":
        i += 1
        if i < len(tokens) and tokens[i] == ("p", "("):
            args, i = parse_seq(tokens, i + 1, ")")
            return ("id", v, args), i
        if i < len(tokens) and tokens[i] == ("p", "{"):
            fields = {}
            i += 1
            while tokens[i] != ("p", "}"):
                name = tokens[i][1]
                assert tokens[i + 1] == ("p", ":")
                val, i = parse(tokens, i + 2)
                fields[name] = val
                if tokens[i] == ("p", ","):
                    i += 1
            return ("struct", v, fields), i + 1
        return ("id", v, None), i
    if k == "num":
        return ("num", v), i + 1
    if k == "str":
        return ("str", v), i + 1
    if (k, v) == ("p", "["):
        items, i = parse_seq(tokens, i + 1, "]")
        return ("list", items), i
    if (k, v) == ("p", "("):
        items, i = parse_seq(tokens, i + 1, ")")
        return ("tuple", items), i
    raise ValueError("unexpected token %r" % (tokens[i],))


def parse_seq(tokens, i, close):
    items = []
    while tokens[i] != ("p", close):
        x, i = parse(tokens, i)
        items.append(x)
        if tokens[i] == ("p", ","):
            i += 1
    return items, i + 1


def tid(n):
    assert n[0] == "id" and n[1] == "TermId"
    return int(n[2][0][1])


class Unfold:
    def __init__(self, dump, native_names):
        node, _ = parse(tokenize(dump))
        assert node[0] == "struct" and node[1] == "Filter"
        lut = node[2]["lut"][2]
        self.terms = lut["terms"][1]
        self.main = tid(node[2]["id"])
        self.natives = native_names
        self.defnum = {}
        self.deforder = []

    def forest(self):
        main = self.term(self.main)
        bodies = []
        k = 0
        while k < len(self.deforder):
            bodies.append(self.term(self.deforder[k]))
            k += 1
        return ["forest", main, bodies]

    def opt(self, n):
        if n[0] == "id" and n[1] == "None":
            return "None"
        return ["Some", self.term(tid(n[2][0]))]

    def pat(self, n):
        if n[0] == "id" and n[1] == "Var":
            return "Var"
        assert n[1] == "Idx"
        return ["Idx", [[self.term(tid(t[1][0])), self.pat(t[1][1])] for t in n[2][0][1]]]

    def args(self, n):
        out = []
        for a in n[1]:
            out.append(["v" if a[1] == "Var" else "f", self.term(tid(a[2][0]))])
        return out

    def term(self, i, depth=0):
        if depth > 4000:
            raise ValueError("cyclic table without definition")
        n = self.terms[i]
        assert n[0] == "id"
        name, a = n[1], n[2]
        T = lambda k: self.term(tid(a[k]), depth + 1)
        if a is None:
            return name
        if name == "Int":
            return ["Int", a[0][1]]
        if name in ("Num", "Str"):
            return [name, a[0][1]]
        if name == "Var":
            return ["Var", a[0][1]]
        if name in ("Arr", "Label", "Neg"):
            return [name, T(0)]
        if name in ("ObjSingle", "Comma", "Assign", "Update", "UpdateAlt", "Alt", "TryCatch"):
            return [name, T(0), T(1)]
        if name in ("UpdateMath", "Math", "Cmp"):
            return [name, T(0), a[1][1], T(2)]
        if name == "Logic":
            return [name, T(0), a[1][1], T(2)]
        if name == "Ite":
            return [name, T(0), T(1), T(2)]
        if name == "Pipe":
            p = a[1]
            l = T(0)
            pat = "None" if (p[0] == "id" and p[1] == "None") else ["Some", self.pat(p[2][0])]
            return [name, l, pat, T(2)]
        if name == "CallDef":
            d = tid(a[0])
            if d not in self.defnum:
                self.defnum[d] = len(self.deforder)
                self.deforder.append(d)
            return ["CallDef", str(self.defnum[d]), self.args(a[1]), a[2][1], a[3][1]]
        if name == "Native":
            return ["Native", self.natives[int(a[0][1])], self.args(a[1])]
        if name == "Fold":
            f = a[4]
            head = [T(0), self.pat(a[1]), T(2), T(3)]
            if f[1] == "Reduce":
                ft = "Reduce"
            else:
                inner = f[2][0]
                ft = ["Foreach", "None" if (inner[0] == "id" and inner[1] == "None") else ["Some", self.term(tid(inner[2][0]), depth + 1)]]
            return ["Fold"] + head + [ft]
        if name == "Path":
            head = T(0)
            parts = []
            for tup in a[1][2][0][1]:
                p, o = tup[1]
                if p[1] == "Index":
                    pp = ["Index", self.term(tid(p[2][0]), depth + 1)]
                else:
                    pp = ["Range", self.opt(p[2][0]), self.opt(p[2][1])]
                parts.append([pp, o[1]])
            return ["Path", head, parts]
        raise ValueError("unknown term " + name)


def renumber_model(forest):
    """model forest `(forest errs main (defs...))` -> same canonical form (first-visit numbering)."""
    main, defs = forest[2], forest[3]
    num = {}
    order = []

    def walk(t):
        if isinstance(t, list):
            if t and t[0] == "CallDef":
                d = int(t[1])
                if d not in num:
                    num[d] = len(order)
                    order.append(d)
                return ["CallDef", str(num[d]), walk(t[2]), t[3], t[4]]
            return [walk(x) for x in t]
        return t

    m = walk(main)
    bodies = []
    k = 0
    while k < len(order):
        bodies.append(walk(defs[order[k]]))
        k += 1
    return ["forest", m, bodies]
