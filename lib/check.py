"""Generic check driver: build, re-check proofs, correspondence (implementation vs extracted model),
property oracle on the implementation, decision, known findings, evidence."""
import importlib
import json
import os
import random
import sys
import time
from collections import Counter

import core
import jq
from core import sx


def key_matches(known, prop, key):
    for k in known:
        if k["property"] == prop and k["key"] == key:
            return k
    return None


def run(prop, tier, seed, only_replay=None):
    t0 = time.time()
    import glob
    for f in glob.glob(os.path.join(core.ROOT, "replays", prop + "-*.json")):
        os.remove(f)
    mod = importlib.import_module("checks." + prop.lower())
    rng = random.Random(seed * 1000003 + int(prop[1:]))
    violations = []   # dicts: key, what, replay payload
    notes = []
    build_problem = None
    try:
        core.build_harness()
        core.build_model()
        envinfo = jq.make_env()
    except core.BuildError as e:
        build_problem = str(e)
        envinfo = {}

    # 1. proofs
    proofs = core.check_props(prop, tier) if os.path.exists(os.path.join(core.COQ, "Props", prop + ".v")) else None

    coverage = {}
    stats = Counter()
    samples = []
    disagreements = []
    oracle_violations = []
    n_cases = 0
    distinct = set()
    if build_problem is None:
        ctx = dict(rng=rng, tier=tier, seed=seed)
        if hasattr(mod, "custom"):
            # checks that are not made of jq program cases
            res = mod.custom(ctx)
            stats.update(res.get("stats", {}))
            samples = res.get("samples", [])
            n_cases = res.get("evaluations", 0)
            distinct = set(res.get("distinct", []))
            disagreements = res.get("disagreements", [])
            oracle_violations = res.get("violations", [])
            coverage.update(res.get("coverage", {}))
        if hasattr(mod, "gen"):
            cases = mod.gen(ctx)
            for i, c in enumerate(cases):
                c.setdefault("id", "k%d" % i)
            res = jq.run_both(cases, limit=getattr(mod, "LIMIT", 64), fuel=getattr(mod, "FUEL", 400),
                              per_case_timeout=getattr(mod, "TIMEOUT", 10.0))
            n_cases += len(cases)
            for c in cases:
                r = res[c["id"]]
                cls = jq.classify(r)
                if hasattr(mod, "reclassify"):
                    cls = mod.reclassify(c, r, cls)
                stats[cls] += 1
                stats["kind:" + c.get("kind", "?")] += 1
                impl = r["impl"]
                nontrivial = isinstance(impl, list) and impl and impl[0] == "out" and (len(impl[1]) > 0 or impl[2] != "end")
                if nontrivial:
                    distinct.add(sx.dumps(impl) + "|" + c.get("kind", ""))
                if cls == "disagree":
                    disagreements.append(dict(case=c, impl=impl, model=r["model"]))
                if hasattr(mod, "oracle"):
                    v = mod.oracle(c, impl, r["model"]) if mod.oracle.__code__.co_argcount >= 3 else mod.oracle(c, impl)
                    if v:
                        oracle_violations.append(dict(case=c, impl=impl, what=v[1], key=v[0]))
                if len(samples) < 6 and nontrivial and rng.random() < 0.05:
                    samples.append(dict(filter=c["filter"] if isinstance(c["filter"], str) else c["filter"].decode("latin-1"),
                                        vars=[[n, sx.dumps(v)] for n, v in c.get("vars", [])],
                                        inputs=[sx.dumps(v) for v in c.get("inputs", ["null"])],
                                        impl=sx.dumps(impl)))
            if not samples and cases:
                c = cases[0]
                samples.append(dict(filter=str(c["filter"]), impl=sx.dumps(res[c["id"]]["impl"])))

    if os.environ.get("JV_DEBUG"):
        with open(os.path.join(core.ROOT, "build", prop + "-debug.txt"), "w") as f:
            for d in disagreements:
                f.write("DISAGREE %s\n  vars %s\n  inputs %s\n  impl  %s\n  model %s\n" % (
                    d["case"].get("filter"), [[n, sx.dumps(x)] for n, x in d["case"].get("vars", [])],
                    [sx.dumps(x) for x in d["case"].get("inputs", [])],
                    sx.dumps(d["impl"])[:700] if d["impl"] is not None else None, sx.dumps(d["model"])[:700] if d["model"] is not None else None))
            for v in oracle_violations:
                f.write("ORACLE %s %s\n" % (v["key"], v["what"]))
            if proofs:
                f.write("PROOF problems: %s\n" % proofs["problems"])
    # 2. decide
    known = core.load_known()
    reported = []
    known_printed = set()

    def report(key, what, payload, found_input=True):
        k = key_matches(known, prop, key)
        if k:
            if key not in known_printed:
                known_printed.add(key)
                print("KNOWN-FINDING: property=%s %s (%s)" % (prop, k["what"], key))
            return
        if any(r[0] == key for r in reported):
            return
        rel = core.write_replay(prop, payload)
        reported.append((key, rel))
        print("VIOLATION property=%s replay=%s%s" % (prop, rel, "" if found_input else " no-failing-input-found"))
        violations.append(dict(key=key, what=what, replay=rel))

    if build_problem:
        report("build", "the harness or model does not build against /repo",
               dict(property=prop, kind="build", detail=build_problem[-3000:]), found_input=False)
    for v in oracle_violations[:50]:
        c = v["case"]
        report(v["key"], v["what"], dict(property=prop, kind="oracle", what=v["what"],
               filter=c.get("filter") if isinstance(c.get("filter"), str) else str(c.get("filter")),
               vars=[[n, sx.dumps(x)] for n, x in c.get("vars", [])],
               inputs=[sx.dumps(x) for x in c.get("inputs", ["null"])], actual=sx.dumps(v["impl"]) if v.get("impl") is not None else None,
               how_to_run="./jv replay <this file>", extra=v.get("extra")), found_input=not v.get("noinput"))
    for d in disagreements[:50]:
        c = d["case"]
        key = mod.disagreement_key(c, d) if hasattr(mod, "disagreement_key") else "model-vs-impl:" + c.get("kind", "?")
        report(key, "implementation differs from the model the theorems are about",
               dict(property=prop, kind="correspondence",
                    filter=c.get("filter") if isinstance(c.get("filter"), str) else str(c.get("filter")),
                    vars=[[n, sx.dumps(x)] for n, x in c.get("vars", [])],
                    inputs=[sx.dumps(x) for x in c.get("inputs", ["null"])],
                    expected_model=sx.dumps(d["model"]) if d["model"] is not None else None,
                    actual=sx.dumps(d["impl"]) if d["impl"] is not None else None,
                    how_to_run="./jv replay <this file>"), found_input=not d.get("noinput"))
    if proofs is not None and not proofs["ok"]:
        # a proof obligation or the audit broke; if nothing concrete was found above, say so
        if not reported:
            report("proof", "proof obligations no longer check",
                   dict(property=prop, kind="proof", problems=proofs["problems"], log=proofs["log"][-3000:]),
                   found_input=False)

    # 3. evidence
    cov = dict(
        obligations=proofs["obligations"] if proofs else 0,
        discharged=proofs["discharged"] if proofs else 0,
        checker_cmd="make -C coq Props/%s.vo (coqc 8.16.1, full .vo) + Print Assumptions audit + source audit" % prop,
        trusted_base=core.TRUSTED_BASE,
        theorems=proofs["theorems"] if proofs else [],
        print_assumptions=proofs["assumptions"] if proofs else {},
        coqchk=proofs.get("coqchk") if proofs else None,
        evaluations=n_cases,
        distinct_nontrivial=len(distinct),
        rule=getattr(mod, "RULE", "generated jq programs run on the implementation (harness, /repo crates) and on the "
                                  "extracted Coq model; non-trivial = distinct canonical output that is not the empty stream"),
        samples=samples or [dict(note="no cases run")],
        correspondence=dict((k, v) for k, v in stats.items() if not k.startswith("kind:")),
        distribution=dict((k[5:], v) for k, v in stats.items() if k.startswith("kind:")),
        model_regenerated_from=envinfo,
        partial_theorems=getattr(mod, "PARTIAL", []),
    )
    cov.update(coverage)
    core.write_evidence(prop, tier, seed, cov, getattr(mod, "ASSUMPTIONS", []), time.time() - t0, len(violations))
    return 1 if violations else 0
