"""Writes MANIFEST.json from the table below (kept in one place so that it stays valid)."""
import json
import os

ROOT = os.path.dirname(os.path.dirname(os.path.abspath(__file__)))

NOTE = ("Trusted: Coq 8.16.1 kernel (full .vo build, vm_compute for finite sweeps, no native_compute); axioms per theorem as "
        "printed by Print Assumptions into the evidence (allow-list: functional_extensionality_dep); Coq stdlib SpecFloat as the "
        "definition of binary64 arithmetic; extraction (ExtrOcamlBasic only) and the OCaml driver; the Rust harness with path "
        "dependencies on /repo (rebuilt every run); the Python generators/oracles. The theorems are about the Coq model; the tie to "
        "the Rust code is the correspondence check (differential, bounded by the generated cases) plus the model environment "
        "regenerated from /repo on every run (defs.jq parse trees, native registry). Third-party crates are modelled by contract.")

CLAIMED = {
    "C13": ("Theorems (for every byte string, invalid UTF-8 included): @uri|@urid, @html|@htmld and @base64|@base64d (strict decoder) "
            "return the input; the base64 decoder accepts nothing but encodings (an accepted text is the encoding of its result: malformed, "
            "truncated or non-canonical input is rejected, never shortened; decoding is injective); per byte (all 256) decoding undoes encoding whatever follows; a POSIX shell reading the word @sh produces "
            "recovers exactly the original bytes; explode|implode returns every byte string (a decoded character is a scalar value whose "
            "encoding is the bytes read; invalid bytes travel as negative numbers); the pieces of split joined by the separator are the "
            "string; the ASCII case maps change nothing but letters and never a byte >= 128. Correspondence: the codec filters, explode/implode, tobytes, split/join, ascii case "
            "against the model on strings over ASCII specials, multi-byte and invalid bytes. Oracles: /bin/sh on 3000 words (alone and "
            "inside format strings), Python csv/json/html/urllib/base64 as consumers, malformed base64/percent input, character counting "
            "of length/explode/indices, regex match offsets and split reassembly. @csv rows are read back field by field and written TSV fields are clean (Fmts/Tabular.v). Partial: regex engine by contract.",
            "7.13", "Coq proof (codecs, shell quoting) + model/implementation correspondence + independent consumers"),
    "C14": ("Theorems: a string that the YAML writer leaves unquoted is read back as that string (must_quote vs the reader's "
            "resolution of plain scalars, for every byte string), is one plain scalar for the scanner and cannot be taken for structure "
            "(no break, flow indicator, blank end, key separator, comment); null/booleans/special floats resolve to themselves; CSV: every "
            "document of rows of scalars is read back as written (reader state machine, all byte strings); TSV: every field comes back "
            "byte for byte and is a string on the documented domain; no raw separator in a written field; CBOR (Fmts/Cbor.v: writer, reader and the "
            "header layer of ciborium-ll): reading what the writer wrote yields the value, whatever follows, for every value of null, booleans, "
            "machine and big integers of any size, floats (every binary64 pattern, written in the shortest of binary16/32/64 that holds it "
            "exactly and read back bit for bit: Proofs/CborFloat.v, for zeros, sub-normal and normal numbers, infinities and quiet NaNs), byte "
            "strings, valid UTF-8 text, arrays and objects with any such keys; sequences of values come back as sequences; a decimal literal "
            "comes back as the float it denotes; an array written with indefinite length by another encoder is read as the same array (Proofs/CborLaws.v). Correspondence: tocbor byte for byte (shortest float widths included) and "
            "fromcbor on RFC 8949 appendix A, generated and mutated documents (indefinite lengths, all widths, tags, breaks), toyaml (flow and "
            "block style with all indentation options through --to yaml), fromyaml on plain scalars, tocsv/totsv/fromcsv/fromtsv on raw "
            "text. Oracles: round trips of YAML/CBOR/TOML/CSV/TSV/XML on generated domains with reserved words and indicators, values just "
            "outside the domains, Python tomllib/csv/minidom as independent readers, --to/--from with every output option. Partial: "
            "TOML, XML and document-level YAML by oracle (third-party tokenizers), invalid UTF-8 in CBOR by correspondence, floats in CSV come back as decimal literals.",
            "7.14", "Coq proof (YAML scalars, CSV/TSV reader and writer, CBOR writer and reader) + model/implementation correspondence + round trips and independent readers"),
    "C16": ("Theorems about the loader model (Cli/Modules.v): every file is loaded at most once whatever the routes; the open stack is "
            "restored; dependencies are loaded before their dependents; every reached file is loaded; a cycle of any length among the "
            "reached files makes the load fail, the model's fuel is never what stops it, and every acyclic set of existing files loads. Tie/oracle: random acyclic module graphs on disk (diamonds, "
            "clashes, include/import mix, data imports, command-line variables) run by the binary against their textually inlined "
            "single program; graphs with cycles against the Coq loader (circular vs loaded); 27 look-up cases on real directories "
            "(search metadata relative to the importing file before -L, ~, extension only when none is given, absolute paths refused, "
            "scoping of imports, loader's definitions and call-site variables invisible). Partial: inline_equiv is an oracle, not a theorem.",
            "7.16", "Coq proof (loader) + binary-vs-inlined oracle + model correspondence on cyclic graphs (partial)"),
    "C15": ("Theorems (operator layer, Parse/PrecClimb.v mirrors prec_climb.rs and Term::climb): for chains of any length the tree reads "
            "back as exactly the input sequence, the whole chain is consumed and every node respects the table (left operands bind tighter or "
            "equally on left-associative levels, right operands tighter or equally on right-associative ones), and that tree is the only one "
            "over the sequence that respects the table (so the table's parentheses never change the program); precedence levels and associativities equal the manual's table; all 625 ordered pairs and "
            "all 15625 ordered triples of operators (bindings included) group as the table implies (exhaustive, computed in the kernel). "
            "Correspondence/oracle on the implementation: pairs, triples and random chains parse like their table-parenthesised texts and "
            "like the Coq model; programs re-rendered with whitespace/comments (backslash continuation)/redundant parentheses parse "
            "identically; 40 documented shorthands equal their expansions (implementation and model); 57 malformed programs are rejected. "
            "The lexer (Parse/Lex.v mirrors lex.rs; tokenisation compared with jaq's on programs, trivia variants, mutated and hand-made texts): white space and comments in front of a token change neither the token nor what follows nor the verdict, for every input. Partial: the grammar of atoms above the tokens is not proved.", "7.15",
            "Coq proof (precedence climbing, exhaustive finite tables) + parser correspondence + expansion oracles"),
    "C20": ("Theorems: the day-count algorithms are inverse on all of Z (every day number maps to a date and back), produce well-formed "
            "dates, agree with an independently written calendar (leap rule, month lengths) on every valid date of a 400-year era and are "
            "400-year periodic; epochs outside the representable range are rejected, never wrapped; every day number maps to a valid date (leap years included); gmtime | mktime is the identity on every whole number of seconds that gmtime accepts. Correspondence: gmtime/mktime on integer "
            "epochs and arrays against the Coq model; oracle: Python's datetime for gmtime/mktime/todate/fromdate, round trips (also "
            "fractional, to the microsecond), rejection of non-finite/non-numeric inputs and malformed arrays, RFC 3339 texts with offsets. "
            "Partial: fractional epochs and strftime/strptime by oracle only.", "7.20",
            "Coq proof (calendar) + model/implementation correspondence + independent calendar oracle"),
    "C18": ("Partial. Theorems about the model of the in-place block (Cli/InPlace.v): at every prefix of the operation sequence (every "
            "crash point) the file holds its old bytes or - only after success - exactly the complete output; after success the output, "
            "the old permission bits and no temporary file; after failure the file untouched and no temporary file; for several distinct files: at every crash point of the whole run "
            "every file holds its old bytes or its own complete output, the files before a failing one hold their outputs and the failing "
            "and later ones their old contents, and no temporary file of the run is left. Tie: final directory "
            "states and strace syscall sequences of the binary on 14 scenarios (1-3 files, modes, relative/absolute paths, filter errors, "
            "parse errors) against the model; fault enumeration: SIGKILL injected at every write/rename/chmod/open call and EIO at every "
            "write/rename. Not covered: crash consistency below the syscall layer (no fsync).", "7.18",
            "Coq proof (operation-sequence model) + syscall-trace correspondence + fault enumeration (partial)"),
    "C17": ("Partial. Theorems about the model of the main loop (Cli/Main.v): outputs are written completely and in order, what was "
            "written before an error stays written, output options change only the rendering and never the outcome, the exit status "
            "table. Correspondence: the jaq binary (built from /repo every run) on option sets x filters x stdin streams (valid, "
            "truncated, malformed): stdout bytes, stderr presence and exit status against the model's prediction; in-language oracles for "
            "input/inputs consumption order, multiple files, input_filename, --arg/--argjson/--slurpfile/--rawfile/--args/$ENV, -f, "
            "halt_error; several files against the same inputs on stdin (outputs, outcome, --exit-status per last file; json, raw and "
            "raw0 readers); stdout and stderr on one pipe (each output written before the next is computed) and dialogues over pipes "
            "where the peer answers each output with the next input. Not covered: terminal detection, colours by environment, Windows.", "7.17",
            "Coq proof (main loop model) + binary/model correspondence + CLI oracles (partial)"),
    "C03": ("Theorems about the lazy stream model and the interpreter model: whatever follows the items a prefix consumer needs (an "
            "error, a halt, a break, divergence, more items), the first k items, first, limit(n; _) and the consumer that stops iterating "
            "after k outputs give the same result; limit is exactly the prefix then the end; label/break ignores what follows the break; "
            "comma, pipe, try, label and // hand prefixes through construct by construct; reduce and foreach ask their source for the next item only "
            "after the update has yielded a state: an empty or failing update ends the fold whatever the rest of the source would do, foreach delivers "
            "before the source is asked again (Proofs/FoldLazy.v). Correspondence: ~1900 programs with a marker "
            "effect after the k-th output (10 stream shapes x error/halt/endless-loop markers x every prefix consumer x all k) against the "
            "extracted model and the defining equations. Oracles: inputs consumed (harness counter, finite and endless input streams) "
            "against the definitional count for 56 input programs; endless generators consumed incrementally; time for 2N against N "
            "outputs; the command line on a pipe that stays open and with a reader that closes early. Partial: input consumption and "
            "time per output are observed, not proved (the model has no shared input stream).",
            "7.3", "Coq proof (rest-independence of prefix consumers) + model/implementation correspondence + consumption counters"),
    "C04": ("Theorems about the compiler model: a call of an enclosing definition under any stack of tail contexts (right of |, of as p |, "
            "either side of the comma, right of //, then/else branch, foreach projection) is compiled to a thrown tail call and reported to "
            "the caller; outside a tail position it catches instead; array/negation/label/try/reduce/arithmetic/comparison/update/path/"
            "string/object construction drop the tail-callable set. Correspondence: the compiled tables of the implementation against the "
            "model compiler's forest with call types on random nests of tail-recursive definitions (self, parent, child and earlier-sibling "
            "calls through random stacks of tail contexts, counter in . or in a variable, variable and filter arguments handed on); no "
            "CatchAll call may appear in such a nest. Measurement on the binary: N and 2N iterations under a 512 KB stack, result and "
            "peak-memory growth, run for values, under first/limit/label, for paths, and the built-in loops. Partial: constant stack and "
            "heap of the interpreter are measured, not proved. Known finding: heap growth for tail calls in a foreach projection.",
            "7.4", "Coq proof (tail-call classification of the compiler model) + table correspondence + stack/heap measurement"),
    "C05": ("Theorems (the guards between boundary values and a crash, on the model the other properties tie to the code): machine-integer "
            "results of + - * % negation and length always lie in the range of isize (otherwise big integers); an accepted index lies inside "
            "the sequence; the byte offset of a character position is a chunk boundary inside the string and string slices lie inside the "
            "string; chunks partition every byte string. Search (debug build: overflow, bounds and assertions panic): ~1500/20000 mutated and "
            "random filter texts through load+compile with diagnostics rendered and spans checked, accepted mutants run; every native, every "
            "definition of the three defs.jq and 70 operator forms (330 callables discovered from the current tree) on ~1.7 million tuples "
            "over a boundary pool (exhaustive up to two value arguments, sampled above, closure arguments from a pool), with hang and abort "
            "attribution per tuple; ~1900/30000 mutated documents over nine formats through both reader entry points and the binary with "
            "every output format. Partial: a total model cannot exhibit a panic, the search is a test; allocation failures, capacity overflow "
            "and stack overflow are excepted as the property says.",
            "7.5", "Coq proof (range, bounds and boundary guards) + crash search over filter texts, native x boundary tuples and documents"),
    "C06": ("Theorems: in the loader model every file read is the prelude or named by a chain of import/include directives from the main "
            "program, and none is read twice (the set of files read is determined by the directives alone); the --in-place exception changes "
            "nothing but the named file and its temporary file; the modelled filters are Gallina functions (no world to touch). Observation "
            "at the system-call boundary (strace -f on the binary): every native and definition discovered from the current tree and the "
            "format filters on tuples of path-like/URL-like/command-like values, generated programs, adversarial and mutated documents per "
            "decoder, runs with named inputs/modules/data files whose contents name other paths, time-zone filters; policy: no write-open, "
            "create, rename, link, delete, socket, process; reads only of start-up files, named files and the time-zone database; canaries "
            "and working directory unchanged. Partial: the behaviour of the Rust natives is observed, not proved.",
            "7.6", "Coq proof (loader reads only named files, in-place frame) + system-call observation of the binary"),
    "C19": ("Theorems about a model of threads that share only an immutable value (the compiled filter): whatever the interleaving "
            "(every schedule), every thread ends with exactly what it yields alone; instantiated with the interpreter model for T threads "
            "running one compiled program on their own inputs. Static facts: Filter and Lut are Send + Sync, Val is with the feature sync "
            "(compile-time assertions of the harness, built on every run). Observation: batches of generated programs compiled once, run "
            "alone twice (determinism), then by T threads x R repetitions in different orders on the shared compiled filters while another "
            "thread keeps compiling; with thread-local values (Rc) and with values shared between threads (Arc). Source audit: no static or "
            "thread-local state in the library crates. Partial: that the Rust filter shares nothing mutable is asserted, audited and "
            "observed, not proved; no sanitizer.",
            "7.19", "Coq proof (schedule independence of threads sharing an immutable filter) + Send/Sync assertions + concurrent runs"),
    "C07": ("Theorems: for all 256 bytes and both string kinds the reader undoes the writer's escape in one step; whole text strings "
            "and byte strings of arbitrary bytes (control characters, quotes, DEL, invalid UTF-8) survive print-then-parse; integers of any "
            "size through the number lexer; whole values (value_roundtrip): every value built from null, booleans, integers, text and byte "
            "strings, arrays and objects with any such values as keys is read back from its compact text as exactly that value, alone or "
            "inside a longer text. "
            "Correspondence: tojson, tojson|fromjson on exhaustive short strings, floats (edge + random bit patterns), integers of any "
            "size, decimal literals, trees with arbitrary keys; the command line under -c/default/-S/--indent/--tab against the writer "
            "model and re-read; RFC 8259 texts against Python's json. Partial: floats and decimal literals inside values (the shortest-digits printer), the "
            "indented/sorted layouts and RFC acceptance of texts jaq does not print are checked by correspondence/oracle, not proved.", "7.7",
            "Coq proof (strings, integers, whole values) + model/implementation correspondence + independent JSON parser"),
    "C02": ("Theorems: evaluating an exploded path for paths projects onto evaluating it for values (same values, order, terminator, "
            "optional parts included); .[] enumerates positions and values consistently. Correspondence: path expressions (exhaustive "
            "to depth 2 over 14 atoms, random beyond) x small inputs through [p], path(p), path_value(p), p |= u and the assignment "
            "forms, implementation vs model. Oracle on the implementation: path/path_value/getpath agreement, the manual's reduction "
            "rules for |= as program equations, iter_upd/index_upd/slice_upd of the manual, value-constructing expressions fail, "
            "p |= u against getpath(path(p)) |= u, setpath and delpaths along path(p) on arrays, objects and text strings. "
            "Updates through definitions, filter arguments and folds (Proofs/UpdateFolds.v): a definition is updated through its body, a filter argument in the context it was written in, reduce/foreach hand the update inwards item by item (the update through the nested-pipe expansion). "
            "getpath(path(p)) = p: for paths of any length through iteration, indices, slices and optional parts, every (value, path) pair that is yielded addresses its value - indexing the input along the path gives exactly the value (for values whose objects can be addressed by their own keys - proved for all JSON-like values; a NaN key is the excluded case). Term level (Proofs/PathsProject.v): for every term without `//` and `try` in path position - pipes, commas, conditionals, bindings, reduce/foreach, labels, path terms, `..`, calls with variable and filter arguments, first/last/limit/skip - evaluating for paths yields, in order, exactly the outputs of evaluating for values, each with its position, or stops with the path-expression error (paths_carry_the_outputs, by induction on the fuel of the three mutually recursive evaluators). Updates: the interpreter's update clauses are the manual's reduction rules (identity, pipe, comma, binding by binding, conditional, alternative, paths), exploded paths are updated part by part (path_update_composes), value-constructing terms fail; the parts themselves are characterised under C10. Partial: updates through definitions/closures and reduce/foreach, paths under `//` and `try`, and destructuring patterns rest on the correspondence.", "7.2",
            "Coq proof (path level) + model/implementation correspondence + in-language identities"),
    "C10": ("Theorems: abs_index selects exactly the positions inside (negatives from the end), slice bounds are clipped into [0,len] "
            "with non-negative length, open bounds give the whole sequence; updates (map_index/map_range of the model): inside an array the "
            "filter runs on the element the read yields and its first output replaces exactly that element (no output removes it), every "
            "other position is unchanged; outside or on null the update is refused, or skipped under ?; a slice update replaces exactly "
            "the clipped window that is read and keeps what lies before and after it (arrays, byte strings; text strings on character "
            "boundaries); objects: reading probes the entry the update finds, a present key keeps its place and the keys their order, an "
            "absent key is appended. Correspondence + Python list-model oracle: exhaustive "
            "arrays/strings of length 0-4 (multi-byte and invalid UTF-8), positions in [-6,6], null and wrongly typed positions, "
            "huge integers, updates with 0/1/2 outputs, slices, two-part paths with each part's own ?, destructuring patterns with "
            "computed keys in any position, objects with arbitrary keys and order of untouched keys.", "7.10",
            "Coq proof + model/implementation correspondence + Python reference position model"),
    "C11": ("Theorems: limit(n;f) ++ skip(n;f) = f for every machine-integer count and every stream (error/break/out-of-fuel "
            "terminated included), non-positive counts, first = limit 1, nothing follows the first error; last(f) is the last element of the "
            "collected stream and is ended by the first error inside it, nth(n; f) = first(skip(n; f)) is the n-th output, nothing beyond the end, "
            "the first for n <= 0, isempty(g) = first((g | false), true) looks at the first output only, all/any are the conjunction/disjunction of the truth values and stop at the first deciding one (Proofs/LastLaws.v); reduce and foreach of the "
            "interpreter equal their nested-pipe expansion for every number of outputs of update and projection (fold_expansion, "
            "reduce_is_nested_pipes); native range/3 on machine integers with positive step is exactly the arithmetic progression below "
            "the bound. Correspondence + oracle: the "
            "manual's defining equations (limit/skip/first/last/nth/isempty/any/all/add/range/repeat/recurse/while/until/select/"
            "reduce/foreach expansions) as program pairs with equal output streams.", "7.11",
            "Coq proof + model/implementation correspondence + defining-equation oracle"),
    "C12": ("Theorems: the stable sort of the model returns a permutation of its input of equal length; for every comparison that is a total preorder the result is sorted and stable (each equivalence class keeps its order); sort on arrays of integers of any size is the numeric sort; group_by returns the maximal runs of equal keys of the sorted keyed list and their concatenation is what sort_by returns; min_by/max_by return an element of the input whose keys are extremal (for every class of numbers on which the order is a total preorder); `indices($x)` on arrays and byte strings lists, increasing and each once, exactly the positions at which the window of the needle's length exists and equals the needle, overlapping occurrences included (Proofs/SearchLaws.v), and on text strings exactly the character positions at whose byte offset the needle stands (Proofs/SearchText.v); sort is idempotent; unique_by (= the first of every group) keeps the first element of each run of equal keys of the sorted list (Proofs/UniqueLaws.v); startswith/endswith test for a prefix/suffix and ltrimstr/rtrimstr remove exactly it (Proofs/TrimLaws.v). Correspondence + oracle: "
            "50 documented equations (sort_by/group_by/unique_by/min_by/max_by/keys/entries/indices/flatten/transpose/paths/pick/"
            "walk/del/join/trimstr/tonumber/...) as program pairs on arrays/objects with duplicates, ties, mixed types, empties and "
            "non-string keys, plus Python references for sort/unique/indices.", "7.12",
            "Coq proof (sort) + model/implementation correspondence + documented-equation oracle"),
    "C01": ("Model: the compiler (Core/Compile.v, mirrors compile.rs incl. Locals and the Tr/CallType analysis) and the interpreter "
            "(Core/Run.v, mirrors filter.rs/path.rs/fold.rs/funs.rs for run, paths and update) over the value model. Tie: the model's "
            "prelude is regenerated from the three defs.jq and the native registry of /repo on every run; compiled look-up tables of "
            "the implementation are compared with the model compiler's forest (variable indices, skip counts, call wiring) and output "
            "streams with the model interpreter on scope-aware random programs. Theorems: stream-algebra laws; compile_correct (binding core, "
            "paths, folds, label/break), compile_defs (recursive, nested, variable-capturing definitions), compile_params (variable "
            "parameters, arguments evaluated in order) and compile_closures (filter parameters as closures over the caller's environment, "
            "related step-indexed; also object and string construction, `..`, `if` without `else`, one-level destructuring) against separately written named "
            "semantics. Partial: nested destructuring patterns and patterns in reduce/foreach, formats (@json ...), update operators, `//`-free is not required but `try` "
            "without `catch`, `[]` and native filters rest on the correspondence.", "7.1",
            "Coq model + table/stream correspondence on generated programs (proof partial)"),
    "C08": ("Theorems: float_cmp is a total preorder with trichotomy on NaN-free floats; integer order/equality exact for every "
            "representation; bsearch (the standard library's binary search, modelled in Std/Natives.v and compared on sorted arrays with runs of equal "
            "elements) on an array sorted by a total preorder of values: a non-negative result points at an equal element, there is one whenever the "
            "value occurs, a negative result names the insertion point (Proofs/BsearchLaws.v). Correspondence: all pairs of a 90-atom pool (every number representation and boundary) and random trees "
            "through comparison, object lookup/merge/equality, array subtraction, sort/unique/group_by/index; oracle: order axioms and "
            "key interchangeability on the implementation. The order of nested values (Proofs/ValOrder.v): whenever the order of numbers "
            "is a total preorder on a class of numbers, val_cmp is a total preorder (reflexive, antisymmetric, transitive, trichotomous) "
            "on all values whose numbers lie in that class - arrays lexicographically, objects by sorted keys then values - instantiated "
            "for integers of any size, for NaN-free floats, and for integers up to 4096 mixed with NaN-free floats (exact, strictly "
            "monotone conversion checked per integer in the kernel). Partial: integers between 4096 and 2^53 next to floats, and the "
            "interchangeability of equal keys beyond numbers, rest on the correspondence and the oracles.", "7.8", "Coq proof + model/implementation correspondence + order-axiom oracle"),
    "C09": ("Theorems: + - * % and negation of integers are exact for all four representation combinations; integer-ness rule; "
            "float otherwise (SpecFloat); representation independence of index/slice positions and comparison; the non-numeric cases (null neutral for +, "
            "concatenation, array minus, string division with join as inverse) and the table of shapes on which each operator "
            "succeeds - everything else is an error. Correspondence: "
            "boundary-straddling operand pairs, all number atoms, non-numeric operands, 29 integer consumers under both "
            "representations; oracle: Python exact arithmetic.", "7.9", "Coq proof + model/implementation correspondence + exact-arithmetic oracle"),
}

TODO = {}


def main():
    props = [json.loads(l) for l in open(os.path.join(ROOT, "properties.jsonl"))]
    checks = []
    na = []
    for p in props:
        pid = p["id"]
        if pid in CLAIMED:
            text, ref, tech = CLAIMED[pid]
            checks.append(dict(
                property_id=pid,
                quick_cmd="./jv check %s --tier quick" % pid,
                thorough_cmd="./jv check %s --tier thorough" % pid,
                evidence_file="evidence/%s.json" % pid,
                replay_cmd_template="./jv replay {path}",
                engine="jv",
                level_claimed=dict(category="proof", text=text, design_ref="DESIGN.md section " + ref),
                level_note=NOTE,
                technique=tech,
            ))
        else:
            na.append(dict(property_id=pid, reason=TODO.get(pid, "check not built yet in this round (planned, see DESIGN.md section 7); not claimed until it runs green")))
    m = dict(
        version=1,
        setup_cmd="./jv setup",
        hooks=dict(guard="jaq_verif", enable="RUSTFLAGS='--cfg jaq_verif' (no hook is currently needed; none committed)",
                   baseline_off_cmd="cd /repo && cargo test --workspace --no-fail-fast --offline",
                   source_commits=[], add_only=True),
        engines=[dict(name="jv", path="jv", serves_properties=[c["property_id"] for c in checks],
                      kind_free_text="Coq models + theorems (coq/), extracted to OCaml (ocaml/), Rust harness on /repo crates (harness/), python generators and oracles (checks/, gen/, lib/)")],
        checks=checks,
        notes="See DESIGN.md. Fix commits in /repo are listed in known-findings.txt.",
        not_applicable=na,
    )
    with open(os.path.join(ROOT, "MANIFEST.json"), "w") as f:
        json.dump(m, f, indent=1)
        f.write("\n")


if __name__ == "__main__":
    main()
