"""Writes MANIFEST.json from the table below (kept in one place so that it stays valid)."""
import json
import os

ROOT = os.path.dirname(os.path.dirname(os.path.abspath(__file__)))

NOTE = ("Trusted: Coq 8.16.1 kernel (full .vo build, vm_compute for finite sweeps, no native_compute); axioms per theorem as "
        "printed by Print Assumptions into the evidence (allow-list: functional_extensionality_dep); Coq stdlib SpecFloat as the "
        "definition of binary64 arithmetic; extraction (ExtrOcamlBasic only) and the OCaml driver; the Rust harness with path "
        "dependencies on /repo (rebuilt every run); the Python generators/oracles. The theorems are about the Coq model; the tie to "
        "the Rust code is the correspondence check (differential, bounded by the generated cases) plus the model environment "
        "regenerated from /repo on every run (defs.jq parse trees, native registry). Third-party crates are modelled by contract.")

CLAIMED = {
    "C01": ("Model: the compiler (Core/Compile.v, mirrors compile.rs incl. Locals and the Tr/CallType analysis) and the interpreter "
            "(Core/Run.v, mirrors filter.rs/path.rs/fold.rs/funs.rs for run, paths and update) over the value model. Tie: the model's "
            "prelude is regenerated from the three defs.jq and the native registry of /repo on every run; compiled look-up tables of "
            "the implementation are compared with the model compiler's forest (variable indices, skip counts, call wiring) and output "
            "streams with the model interpreter on scope-aware random programs. Partial: compile_correct against a separately written "
            "named semantics is not proved yet; proved so far: stream-algebra laws.", "7.1",
            "Coq model + table/stream correspondence on generated programs (proof partial)"),
    "C08": ("Theorems: float_cmp is a total preorder with trichotomy on NaN-free floats; integer order/equality exact for every "
            "representation. Correspondence: all pairs of a 90-atom pool (every number representation and boundary) and random trees "
            "through comparison, object lookup/merge/equality, array subtraction, sort/unique/group_by/index; oracle: order axioms and "
            "key interchangeability on the implementation. Partial: the lifting to nested values with objects is checked by "
            "correspondence and oracle, not yet proved.", "7.8", "Coq proof + model/implementation correspondence + order-axiom oracle"),
    "C09": ("Theorems: + - * % and negation of integers are exact for all four representation combinations; integer-ness rule; "
            "float otherwise (SpecFloat); representation independence of index/slice positions and comparison. Correspondence: "
            "boundary-straddling operand pairs, all number atoms, non-numeric operands, 29 integer consumers under both "
            "representations; oracle: Python exact arithmetic.", "7.9", "Coq proof + model/implementation correspondence + exact-arithmetic oracle"),
}

TODO = {}


def main():
    props = [json.loads(l) for l in open(os.path.join(ROOT, "properties.jsonl"))]
    checks = []
    na = []
    for p in props:
        pid = p["id"]
        if pid in CLAIMED:
            text, ref, tech = CLAIMED[pid]
            checks.append(dict(
                property_id=pid,
                quick_cmd="./jv check %s --tier quick" % pid,
                thorough_cmd="./jv check %s --tier thorough" % pid,
                evidence_file="evidence/%s.json" % pid,
                replay_cmd_template="./jv replay {path}",
                engine="jv",
                level_claimed=dict(category="proof", text=text, design_ref="DESIGN.md section " + ref),
                level_note=NOTE,
                technique=tech,
            ))
        else:
            na.append(dict(property_id=pid, reason=TODO.get(pid, "check not built yet in this round (planned, see DESIGN.md section 7); not claimed until it runs green")))
    m = dict(
        version=1,
        setup_cmd="./jv setup",
        hooks=dict(guard="jaq_verif", enable="RUSTFLAGS='--cfg jaq_verif' (no hook is currently needed; none committed)",
                   baseline_off_cmd="cd /repo && cargo test --workspace --no-fail-fast --offline",
                   source_commits=[], add_only=True),
        engines=[dict(name="jv", path="jv", serves_properties=[c["property_id"] for c in checks],
                      kind_free_text="Coq models + theorems (coq/), extracted to OCaml (ocaml/), Rust harness on /repo crates (harness/), python generators and oracles (checks/, gen/, lib/)")],
        checks=checks,
        notes="See DESIGN.md. Fix commits in /repo are listed in known-findings.txt.",
        not_applicable=na,
    )
    with open(os.path.join(ROOT, "MANIFEST.json"), "w") as f:
        json.dump(m, f, indent=1)
        f.write("\n")


if __name__ == "__main__":
    main()
