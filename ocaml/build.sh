#!/bin/sh
# builds jaqm from the extracted model (../coq/jaqmodel.ml) and driver.ml
set -e
cd "$(dirname "$0")"
mkdir -p build
cp ../coq/jaqmodel.ml ../coq/jaqmodel.mli driver.ml build/
cd build
ocamlfind ocamlopt -O3 -w -a jaqmodel.mli jaqmodel.ml driver.ml -o ../jaqm
