(* jaqm: runs the extracted Coq model on case files (one S-expression per line on stdin),
   prints "<id>\t<result-sexp>" per case.  Hand-written glue only: S-expressions, conversion of
   numbers/bytes between text and the extracted inductive types, dispatch. *)
open Jaqmodel
type string = String.t

(* ---------- S-expressions ---------- *)
type sx = Atom of string | Str of string | L of sx list

exception Parse_error of string

let parse_sx (s : string) : sx =
  let n = String.length s in
  let i = ref 0 in
  let skip () = while !i < n && (s.[!i] = ' ' || s.[!i] = '\t' || s.[!i] = '\n' || s.[!i] = '\r') do incr i done in
  let hexv c = match c with
    | '0'..'9' -> Char.code c - 48 | 'a'..'f' -> Char.code c - 87 | 'A'..'F' -> Char.code c - 55
    | _ -> raise (Parse_error "hex") in
  let rec go () =
    skip ();
    if !i >= n then raise (Parse_error "eof");
    match s.[!i] with
    | '(' ->
        incr i;
        let items = ref [] in
        let fin = ref false in
        while not !fin do
          skip ();
          if !i >= n then raise (Parse_error "eof in list");
          if s.[!i] = ')' then (incr i; fin := true) else items := go () :: !items
        done;
        L (List.rev !items)
    | ')' -> raise (Parse_error "unexpected )")
    | '"' ->
        incr i;
        let b = Buffer.create 16 in
        let fin = ref false in
        while not !fin do
          if !i >= n then raise (Parse_error "eof in string");
          let c = s.[!i] in
          incr i;
          (match c with
           | '"' -> fin := true
           | '\\' ->
               let d = s.[!i] in
               incr i;
               (match d with
                | 'n' -> Buffer.add_char b '\n' | 't' -> Buffer.add_char b '\t'
                | 'r' -> Buffer.add_char b '\r' | '\\' -> Buffer.add_char b '\\'
                | '"' -> Buffer.add_char b '"'
                | 'x' -> let h = hexv s.[!i] and l = hexv s.[!i + 1] in
                         i := !i + 2; Buffer.add_char b (Char.chr (h * 16 + l))
                | _ -> raise (Parse_error "escape"))
           | c -> Buffer.add_char b c)
        done;
        Str (Buffer.contents b)
    | _ ->
        let st = !i in
        while !i < n && (match s.[!i] with ' ' | '\t' | '\n' | '\r' | '(' | ')' | '"' -> false | _ -> true) do incr i done;
        Atom (String.sub s st (!i - st))
  in
  let r = go () in
  skip ();
  if !i <> n then raise (Parse_error "trailing");
  r

let rec write_sx b = function
  | Atom a -> Buffer.add_string b a
  | Str s ->
      Buffer.add_char b '"';
      String.iter (fun c ->
        match c with
        | '\n' -> Buffer.add_string b "\\n" | '\t' -> Buffer.add_string b "\\t"
        | '\r' -> Buffer.add_string b "\\r" | '\\' -> Buffer.add_string b "\\\\"
        | '"' -> Buffer.add_string b "\\\""
        | ' '..'~' -> Buffer.add_char b c
        | _ -> Buffer.add_string b (Printf.sprintf "\\x%02x" (Char.code c))) s;
      Buffer.add_char b '"'
  | L l ->
      Buffer.add_char b '(';
      List.iteri (fun i x -> if i > 0 then Buffer.add_char b ' '; write_sx b x) l;
      Buffer.add_char b ')'

let sx_to_string x = let b = Buffer.create 64 in write_sx b x; Buffer.contents b

(* ---------- numbers and bytes ---------- *)
let rec pos_of_int (n : int) : positive =
  if n = 1 then XH else if n land 1 = 0 then XO (pos_of_int (n lsr 1)) else XI (pos_of_int (n lsr 1))

let z_of_int (n : int) : z =
  if n = 0 then Z0 else if n > 0 then Zpos (pos_of_int n) else Zneg (pos_of_int (- n))

let rec int_of_pos (p : positive) : int =
  match p with XH -> 1 | XO p -> 2 * int_of_pos p | XI p -> 2 * int_of_pos p + 1

let int_of_z (z : z) : int =
  match z with Z0 -> 0 | Zpos p -> int_of_pos p | Zneg p -> - (int_of_pos p)

let rec nat_of_int (n : int) : nat = if n <= 0 then O else S (nat_of_int (n - 1))
let rec int_of_nat (n : nat) : int = match n with O -> 0 | S n -> 1 + int_of_nat n

let z10 = z_of_int 10
let z16 = z_of_int 16

let z_of_dec (s : string) : z =
  let neg, st = if String.length s > 0 && s.[0] = '-' then (true, 1) else (false, 0) in
  let acc = ref Z0 in
  for k = st to String.length s - 1 do
    acc := Z.add (Z.mul !acc z10) (z_of_int (Char.code s.[k] - 48))
  done;
  if neg then Z.opp !acc else !acc

let z_of_hex (s : string) : z =
  let acc = ref Z0 in
  String.iter (fun c ->
    let d = match c with '0'..'9' -> Char.code c - 48 | 'a'..'f' -> Char.code c - 87 | _ -> Char.code c - 55 in
    acc := Z.add (Z.mul !acc z16) (z_of_int d)) s;
  !acc

(* bytes: the extracted [byte] has 256 constant constructors in order X00..Xff *)
let byte_of_char (c : char) : byte = (Obj.magic (Char.code c) : byte)
let char_of_byte (b : byte) : char = Char.chr (Obj.magic b : int)

let bytes_of_string (s : string) : byte list = List.init (String.length s) (fun i -> byte_of_char s.[i])
let string_of_bytes (l : byte list) : string =
  let b = Buffer.create 16 in List.iter (fun x -> Buffer.add_char b (char_of_byte x)) l; Buffer.contents b

let dec_of_z (z : z) : string = string_of_bytes (z_to_dec z)

let hex16_of_z (z : z) : string =
  (* 64-bit pattern -> 16 hex digits *)
  let digits = Stdlib.Bytes.make 16 '0' in
  let cur = ref z in
  for k = 15 downto 0 do
    let (q, r) = Z.div_eucl !cur z16 in
    Stdlib.Bytes.set digits k "0123456789abcdef".[int_of_z r];
    cur := q
  done;
  Stdlib.Bytes.to_string digits

(* ---------- values ---------- *)
let nan_hex = "7ff8000000000000"

let rec sx_of_val (v : val0) : sx =
  match v with
  | Null -> Atom "null"
  | Bool true -> Atom "true"
  | Bool false -> Atom "false"
  | Num (Int i) -> L [Atom "I"; Atom (dec_of_z i)]
  | Num (Big i) -> L [Atom "B"; Atom (dec_of_z i)]
  | Num (Flt f) -> L [Atom "F"; Atom (if is_nan f then nan_hex else hex16_of_z f)]
  | Num (Dec d) -> L [Atom "D"; Str (string_of_bytes d)]
  | TStr s -> L [Atom "S"; Str (string_of_bytes s)]
  | BStr s -> L [Atom "Y"; Str (string_of_bytes s)]
  | Arr a -> L (Atom "A" :: List.map sx_of_val a)
  | Obj o -> L (Atom "O" :: List.map (fun (k, x) -> L [sx_of_val k; sx_of_val x]) o)

let rec val_of_sx (x : sx) : val0 =
  match x with
  | Atom "null" -> Null
  | Atom "true" -> Bool true
  | Atom "false" -> Bool false
  | L [Atom "I"; Atom s] -> Num (Int (z_of_dec s))
  | L [Atom "B"; Atom s] -> Num (Big (z_of_dec s))
  | L [Atom "F"; Atom s] -> Num (Flt (z_of_hex s))
  | L [Atom "D"; Str s] -> Num (Dec (bytes_of_string s))
  | L [Atom "S"; Str s] -> TStr (bytes_of_string s)
  | L [Atom "Y"; Str s] -> BStr (bytes_of_string s)
  | L (Atom "A" :: r) -> Arr (List.map val_of_sx r)
  | L (Atom "O" :: r) ->
      (* same as the harness: entries go through [insert] *)
      Obj (List.fold_left (fun o kv ->
             match kv with
             | L [k; v] -> insert o (val_of_sx k) (val_of_sx v)
             | _ -> failwith "O entry") [] r)
  | _ -> failwith "bad value"

let sx_of_err (e : err) : sx =
  match e with
  | EUser v -> L [Atom "err"; sx_of_val v]
  | ETyp (_, _) -> L [Atom "errc"; Atom "type"]
  | EMath (_, _, _) -> L [Atom "errc"; Atom "math"]
  | EIndex (_, _) -> L [Atom "errc"; Atom "index"]
  | EPathExpr _ -> L [Atom "errc"; Atom "pathexpr"]
  | EOob _ -> L [Atom "errc"; Atom "oob"]
  | EOther t -> L [Atom "errc"; Atom ("other" ^ string_of_int (int_of_z t))]

let out_of_res (r : val0 res) : sx =
  match r with
  | Ok v -> L [Atom "out"; L [sx_of_val v]; Atom "end"]
  | Err e -> L [Atom "out"; L []; sx_of_err e]

let unmodelled = L [Atom "unmodelled"]

let mathop_of = function
  | "Add" -> Add | "Sub" -> Sub | "Mul" -> Mul | "Div" -> Div | "Rem" -> Rem | _ -> failwith "mathop"
let cmpop_of = function
  | "Lt" -> Lt_ | "Le" -> Le_ | "Gt" -> Gt_ | "Ge" -> Ge_ | "Eq" -> Eq_ | "Ne" -> Ne_ | _ -> failwith "cmpop"

let sx_of_cmp = function Lt -> Atom "Lt" | Eq -> Atom "Eq" | Gt -> Atom "Gt"

let rec sx_of_hw (h : hw) : sx =
  match h with
  | W8 n -> L [Atom "u8"; Atom (dec_of_z n)]
  | WF b -> L [Atom "f"; Atom (hex16_of_z b)]
  | WBig z -> L [Atom "big"; Atom (dec_of_z z)]
  | WBytes b -> L [Atom "bytes"; Str (string_of_bytes b)]
  | WLen n -> L [Atom "len"; Atom (dec_of_z n)]


(* ---------- parse trees ---------- *)
let bs (x : sx) : byte list = match x with Str s -> bytes_of_string s | _ -> failwith "expected string"

let mathop_sx = function Atom a -> mathop_of a | _ -> failwith "mathop"
let cmpop_sx = function Atom a -> cmpop_of a | _ -> failwith "cmpop"

let rec pterm_of (x : sx) : pterm =
  match x with
  | L [Atom "Id"] -> PId
  | L [Atom "Recurse"] -> PRecurse
  | L [Atom "Num"; n] -> PNum (bs n)
  | L [Atom "Str"; fmt; L parts] ->
      let fmt = (match fmt with Atom "None" -> None | L [Atom "Some"; f] -> Some (bs f) | _ -> failwith "fmt") in
      PStr (fmt, List.map (function
        | L [Atom "S"; s] -> SPStr (bs s)
        | L [Atom "T"; t] -> SPTerm (pterm_of t)
        | _ -> failwith "strpart") parts)
  | L [Atom "Arr"; t] -> PArr (opt_pterm t)
  | L (Atom "Obj" :: kvs) ->
      PObj (List.map (function L [k; v] -> (pterm_of k, opt_pterm v) | _ -> failwith "obj entry") kvs)
  | L [Atom "Neg"; t] -> PNeg (pterm_of t)
  | L [Atom "BinOp"; l; op; r] -> PBinOp (pterm_of l, binop_of op, pterm_of r)
  | L [Atom "Label"; x; t] -> PLabel (bs x, pterm_of t)
  | L [Atom "Break"; x] -> PBreak (bs x)
  | L [Atom "Fold"; name; xs; pat; L args] ->
      PFold (bs name, pterm_of xs, ppat_of pat, List.map pterm_of args)
  | L [Atom "TryCatch"; t; c] -> PTryCatch (pterm_of t, opt_pterm c)
  | L [Atom "IfThenElse"; L its; e] ->
      PIte (List.map (function L [i; t] -> (pterm_of i, pterm_of t) | _ -> failwith "ite") its, opt_pterm e)
  | L [Atom "Def"; L defs; t] -> PDef (List.map pdef_of defs, pterm_of t)
  | L [Atom "Call"; name; L args] -> PCall (bs name, List.map pterm_of args)
  | L [Atom "Var"; x] -> PVar (bs x)
  | L [Atom "Path"; t; L parts] ->
      PPath (pterm_of t, List.map (function
        | L [p; o] ->
            let o = (match o with Atom "Opt" -> true | _ -> false) in
            let p = (match p with
              | L [Atom "Index"; i] -> PIndex (pterm_of i)
              | L [Atom "Range"; f; u] -> PRange (opt_pterm f, opt_pterm u)
              | _ -> failwith "part") in
            (p, o)
        | _ -> failwith "path part") parts)
  | _ -> failwith ("bad parse tree: " ^ sx_to_string x)
and opt_pterm = function
  | Atom "None" -> None
  | L [Atom "Some"; t] -> Some (pterm_of t)
  | _ -> failwith "option"
and ppat_of = function
  | L [Atom "PVar"; x] -> PPVar (bs x)
  | L (Atom "PArr" :: ps) -> PPArr (List.map ppat_of ps)
  | L (Atom "PObj" :: kps) -> PPObj (List.map (function L [k; p] -> (pterm_of k, ppat_of p) | _ -> failwith "pobj") kps)
  | _ -> failwith "pattern"
and binop_of = function
  | L [Atom "Pipe"] -> BPipe None
  | L [Atom "Bind"; p] -> BPipe (Some (ppat_of p))
  | L [Atom "Comma"] -> BComma
  | L [Atom "Alt"] -> BAlt
  | L [Atom "Or"] -> BOr
  | L [Atom "And"] -> BAnd
  | L [Atom "Math"; m] -> BMath (mathop_sx m)
  | L [Atom "Cmp"; c] -> BCmp (cmpop_sx c)
  | L [Atom "Assign"] -> BAssign
  | L [Atom "Update"] -> BUpdate
  | L [Atom "UpdateMath"; m] -> BUpdateMath (mathop_sx m)
  | L [Atom "UpdateAlt"] -> BUpdateAlt
  | _ -> failwith "binop"
and pdef_of = function
  | L [name; L args; body] -> PDefn (bs name, List.map bs args, pterm_of body)
  | _ -> failwith "def"

(* ---------- environment: natives registry and prelude definitions, regenerated from /repo ---------- *)
let natives : (byte list * bool list) list ref = ref []
let prelude : pdef list ref = ref []

let load_env (file : string) =
  let ic = open_in file in
  (try
     while true do
       let line = input_line ic in
       match parse_sx line with
       | L [Atom "natives"; L ns] ->
           natives := List.map (function
             | L [name; Atom kinds] ->
                 (bs name, List.filter_map (fun c -> if c = 'v' then Some true else if c = 'f' then Some false else None)
                             (List.init (String.length kinds) (String.get kinds)))
             | _ -> failwith "native") ns
       | L [Atom "defs"; L ds] -> prelude := !prelude @ List.map pdef_of ds
       | _ -> ()
     done
   with End_of_file -> ());
  close_in ic

let pre_cache : (string, (modentry list * cst)) Hashtbl.t = Hashtbl.create 16

let get_pre (globals : string list) =
  let key = String.concat "\000" globals in
  match Hashtbl.find_opt pre_cache key with
  | Some p -> p
  | None ->
      let p = compile_prelude !natives (List.map bytes_of_string globals) !prelude in
      Hashtbl.add pre_cache key p; p

let sx_of_exn (e : Jaqmodel.exn) : sx =
  match e with
  | XErr e -> sx_of_err e
  | XBreak _ -> Atom "escape"
  | XHalt c -> L [Atom "halt"; Atom (dec_of_z c)]

let sx_of_fin (f : fin option) : sx =
  match f with
  | None -> Atom "cut"
  | Some FEnd -> Atom "end"
  | Some (FExn e) -> sx_of_exn e
  | Some FBot -> Atom "bot"
  | Some FUnk -> Atom "unmodelled"

(* [run TREE ((name V)...) (INPUT...) LIMIT FUEL]: inputs are run in sequence like the main loop *)
let cmd_run (args : sx list) : sx =
  match args with
  | [tree; L vars; L inputs; Atom limit; Atom fuel] ->
      let names = List.map (function L [Atom n; _] -> "$" ^ n | _ -> failwith "var") vars in
      let vals = List.map (function L [_; v] -> val_of_sx v | _ -> failwith "var") vars in
      let pre = get_pre names in
      let prog = compile_main !natives (List.map bytes_of_string names) pre (pterm_of tree) in
      if int_of_nat prog.p_errs > 0 then L [Atom "out"; L []; Atom "compile-error"]
      else begin
        let limit = int_of_string limit in
        let fuel = nat_of_int (int_of_string fuel) in
        let outs = ref [] in
        let term = ref (Atom "end") in
        let count = ref 0 in
        (* [(cycle V...)]: an endless input stream; the run must be cut by the limit (or end by an error) *)
        let inputs = (match inputs with
                      | Atom "cycle" :: vs when vs <> [] ->
                          let rec rep n = if n = 0 then [] else vs @ rep (n - 1) in rep (limit + 2)
                      | _ -> inputs) in
        (try
           List.iter (fun inp ->
             let (items, fin) = run_take fuel (nat_of_int (limit - !count)) prog vals (val_of_sx inp) in
             outs := List.rev_append (List.map sx_of_val items) !outs;
             count := !count + List.length items;
             (match fin with
              | Some FEnd -> ()
              | f -> term := sx_of_fin f; raise Exit)) inputs
         with Exit -> ());
        L [Atom "out"; L (List.rev !outs); !term]
      end
  | _ -> failwith "run: arguments"

(* the compiled forest, for comparison with the LUT dump *)
let rec sx_of_term (t : term) : sx =
  let args l = L (List.map (fun (isvar, t) -> L [Atom (if isvar then "v" else "f"); sx_of_term t]) l) in
  match t with
  | KId -> Atom "Id" | KRecurse -> Atom "Recurse" | KToString -> Atom "ToString"
  | KInt i -> L [Atom "Int"; Atom (dec_of_z i)]
  | KNum s -> L [Atom "Num"; Str (string_of_bytes s)]
  | KStr s -> L [Atom "Str"; Str (string_of_bytes s)]
  | KArr t -> L [Atom "Arr"; sx_of_term t]
  | KObjEmpty -> Atom "ObjEmpty"
  | KObjSingle (k, v) -> L [Atom "ObjSingle"; sx_of_term k; sx_of_term v]
  | KVar i -> L [Atom "Var"; Atom (string_of_int (int_of_nat i))]
  | KCallDef (d, a, skip, ct) ->
      L [Atom "CallDef"; Atom (string_of_int (int_of_nat d)); args a; Atom (string_of_int (int_of_nat skip));
         Atom (match ct with Inline -> "Inline" | Throw -> "Throw" | CatchOne -> "CatchOne" | CatchAll -> "CatchAll")]
  | KNative (n, a) -> L [Atom "Native"; Str (string_of_bytes n); args a]
  | KLabel t -> L [Atom "Label"; sx_of_term t]
  | KNeg t -> L [Atom "Neg"; sx_of_term t]
  | KPipe (l, p, r) -> L [Atom "Pipe"; sx_of_term l; (match p with None -> Atom "None" | Some p -> L [Atom "Some"; sx_of_pat p]); sx_of_term r]
  | KComma (l, r) -> L [Atom "Comma"; sx_of_term l; sx_of_term r]
  | KAssign (l, r) -> L [Atom "Assign"; sx_of_term l; sx_of_term r]
  | KUpdate (l, r) -> L [Atom "Update"; sx_of_term l; sx_of_term r]
  | KUpdateMath (l, o, r) -> L [Atom "UpdateMath"; sx_of_term l; sx_of_mathop o; sx_of_term r]
  | KUpdateAlt (l, r) -> L [Atom "UpdateAlt"; sx_of_term l; sx_of_term r]
  | KLogic (l, b, r) -> L [Atom "Logic"; sx_of_term l; Atom (string_of_bool b); sx_of_term r]
  | KMath (l, o, r) -> L [Atom "Math"; sx_of_term l; sx_of_mathop o; sx_of_term r]
  | KCmp (l, o, r) -> L [Atom "Cmp"; sx_of_term l; sx_of_cmpop o; sx_of_term r]
  | KAlt (l, r) -> L [Atom "Alt"; sx_of_term l; sx_of_term r]
  | KTryCatch (l, r) -> L [Atom "TryCatch"; sx_of_term l; sx_of_term r]
  | KIte (i, t, e) -> L [Atom "Ite"; sx_of_term i; sx_of_term t; sx_of_term e]
  | KFold (xs, p, i, u, f) ->
      L [Atom "Fold"; sx_of_term xs; sx_of_pat p; sx_of_term i; sx_of_term u;
         (match f with Reduce -> Atom "Reduce" | Foreach None -> L [Atom "Foreach"; Atom "None"]
                     | Foreach (Some p) -> L [Atom "Foreach"; L [Atom "Some"; sx_of_term p]])]
  | KPath (t, ps) ->
      L [Atom "Path"; sx_of_term t;
         L (List.map (fun (p, o) ->
              L [(match p with
                  | Index i -> L [Atom "Index"; sx_of_term i]
                  | Range (f, u) -> L [Atom "Range"; sx_of_opt f; sx_of_opt u]);
                 Atom (if o then "Optional" else "Essential")]) ps)]
and sx_of_opt = function None -> Atom "None" | Some t -> L [Atom "Some"; sx_of_term t]
and sx_of_pat = function
  | PatVar -> Atom "Var"
  | PatIdx ps -> L [Atom "Idx"; L (List.map (fun (t, p) -> L [sx_of_term t; sx_of_pat p]) ps)]
and sx_of_mathop = function Add -> Atom "Add" | Sub -> Atom "Sub" | Mul -> Atom "Mul" | Div -> Atom "Div" | Rem -> Atom "Rem"
and sx_of_cmpop = function Lt_ -> Atom "Lt" | Le_ -> Atom "Le" | Gt_ -> Atom "Gt" | Ge_ -> Atom "Ge" | Eq_ -> Atom "Eq" | Ne_ -> Atom "Ne"

(* [compile TREE (names...) PRELUDE?]: forest *)
let cmd_compile (args : sx list) : sx =
  match args with
  | [tree; L names] ->
      let names = List.map (function Atom n -> "$" ^ n | _ -> failwith "name") names in
      let pre = get_pre names in
      let prog = compile_main !natives (List.map bytes_of_string names) pre (pterm_of tree) in
      L [Atom "forest"; Atom (string_of_int (int_of_nat prog.p_errs)); sx_of_term prog.p_main; L (List.map sx_of_term prog.p_defs)]
  | _ -> failwith "compile: arguments"

let dispatch (cmd : string) (args : sx list) : sx =
  match cmd, args with
  | "math", [Atom op; a; b] ->
      (match math_run (mathop_of op) (val_of_sx a) (val_of_sx b) with
       | Some r -> out_of_res r
       | None -> unmodelled)
  | "cmp", [Atom op; a; b] ->
      out_of_res (Ok (Bool (cmp_run (cmpop_of op) (val_of_sx a) (val_of_sx b))))
  | "neg", [a] -> out_of_res (vneg (val_of_sx a))
  | "cmp3", [a; b] ->
      let a = val_of_sx a and b = val_of_sx b in
      L [sx_of_cmp (val_cmp a b); Atom (string_of_bool (val_eqb a b))]
  | "hash", [a] -> L (List.map sx_of_hw (hash_writes (val_of_sx a)))
  | "has", [o; k] ->
      (match val_of_sx o with
       | Obj o -> out_of_res (Ok (Bool (match get o (val_of_sx k) with Some _ -> true | None -> false)))
       | _ -> unmodelled)
  | "sort", [a] ->
      (match val_of_sx a with
       | Arr a -> out_of_res (Ok (Arr (sort_by val_cmp a)))
       | _ -> unmodelled)
  | "run", _ -> cmd_run args
  | "modload", [L files; L main_deps] ->
      (* files: ((id dep...)...) *)
      let n x = (match x with Atom a -> nat_of_int (int_of_string a) | _ -> failwith "nat") in
      let fs = List.map (function L (f :: ds) -> (n f, List.map n ds) | _ -> failwith "file") files in
      (match load fs (List.map n main_deps) with
       | Inl mods -> L [Atom "loaded"; L (List.map (fun m -> Atom (string_of_int (int_of_nat m))) mods)]
       | Inr (Circular f) -> L [Atom "circular"; Atom (string_of_int (int_of_nat f))]
       | Inr (NotFound f) -> L [Atom "notfound"; Atom (string_of_int (int_of_nat f))]
       | Inr Fuel -> L [Atom "fuel"])
  | "climb", [L ops] ->
      (* operator names -> tree built by the precedence-climbing model over atoms 0..n *)
      let op_of = function
        | "|" -> OPipe | "," -> OComma | "as" -> OAs O | "=" -> OAssign | "|=" -> OUpdate | "//=" -> OUpdAlt | "//" -> OAlt
        | "or" -> OOr | "and" -> OAnd
        | "+=" -> OUpdMath Add | "-=" -> OUpdMath Sub | "*=" -> OUpdMath Mul | "/=" -> OUpdMath Div | "%=" -> OUpdMath Rem
        | "+" -> OMath Add | "-" -> OMath Sub | "*" -> OMath Mul | "/" -> OMath Div | "%" -> OMath Rem
        | "==" -> OCmp Eq_ | "!=" -> OCmp Ne_ | "<" -> OCmp Lt_ | "<=" -> OCmp Le_ | ">" -> OCmp Gt_ | ">=" -> OCmp Ge_
        | s -> failwith ("op " ^ s) in
      let name_of = function
        | OPipe -> "|" | OComma -> "," | OAs _ -> "as" | OAssign -> "=" | OUpdate -> "|=" | OUpdAlt -> "//=" | OAlt -> "//" | OOr -> "or" | OAnd -> "and"
        | OUpdMath m -> (match m with Add -> "+=" | Sub -> "-=" | Mul -> "*=" | Div -> "/=" | Rem -> "%=")
        | OMath m -> (match m with Add -> "+" | Sub -> "-" | Mul -> "*" | Div -> "/" | Rem -> "%")
        | OCmp c -> (match c with Eq_ -> "==" | Ne_ -> "!=" | Lt_ -> "<" | Le_ -> "<=" | Gt_ -> ">" | Ge_ -> ">=") in
      let chain = List.mapi (fun i o -> (match o with Atom a | Str a -> (op_of a, Jaqmodel.Atom (nat_of_int (i + 1))) | _ -> failwith "op")) ops in
      let rec sx_of_expr = function
        | Jaqmodel.Atom n -> Atom (string_of_int (int_of_nat n))
        | Bin (l, o, r) -> L [sx_of_expr l; Str (name_of o); sx_of_expr r] in
      sx_of_expr (parse_chain (Jaqmodel.Atom O) chain)
  | "cli2", [tree; Str ftext; L argv; L vars; Str stdin; Atom fuel] ->
      (* the model parses the command line itself (Cli/Args.v) *)
      let coq_ascii (c : char) : ascii =
        let n = Char.code c in
        Ascii (n land 1 <> 0, n land 2 <> 0, n land 4 <> 0, n land 8 <> 0, n land 16 <> 0, n land 32 <> 0, n land 64 <> 0, n land 128 <> 0) in
      let rec coq_string (s : string) (i : int) : Jaqmodel.string =
        if i >= String.length s then EmptyString else String (coq_ascii s.[i], coq_string s (i + 1)) in
      let argv = List.map (function Str a -> coq_string a 0 | _ -> failwith "argv") argv in
      (match parse_cli argv with
       | Inr _ -> L [Atom "cli"; Str ""; Atom "2"; Atom "usage-error"]
       | Inl c ->
           if c.c_version || c.c_help || c.c_in_place || c.c_from_file || c.c_files <> [] then L [Atom "cli"; Str ""; Atom "-1"; Atom "out-of-model"]
           else
           (match opts_of c with
            | None -> L [Atom "cli"; Str ""; Atom "-1"; Atom "out-of-model"]
            | Some o ->
                let names = List.map (function L [Atom n; _] -> "$" ^ n | _ -> failwith "var") vars in
                let vals = List.map (function L [_; v] -> val_of_sx v | _ -> failwith "var") vars in
                let pre = get_pre names in
                let rec ocaml_string (s : Jaqmodel.string) : string =
                  (match s with
                   | EmptyString -> ""
                   | String (Ascii (b0, b1, b2, b3, b4, b5, b6, b7), r) ->
                       let bit b k = if b then k else 0 in
                       String.make 1 (Char.chr (bit b0 1 + bit b1 2 + bit b2 4 + bit b3 8 + bit b4 16 + bit b5 32 + bit b6 64 + bit b7 128)) ^ ocaml_string r) in
                let tree = (match c.c_filter with
                            | None -> Some PId                                   (* no filter given: identity *)
                            | Some f -> if ocaml_string f = ftext then (match tree with Atom "none" -> None | _ -> Some (pterm_of tree))
                                        else failwith "filter-mismatch") in
                (match tree with
                 | None -> L [Atom "cli"; Str ""; Atom "3"; Atom "compile-error"]
                 | Some tree ->
                let prog = compile_main !natives (List.map bytes_of_string names) pre tree in
                let (out, oc) = run_cli (nat_of_int (int_of_string fuel)) o prog vals (bytes_of_string stdin) in
                let code = int_of_z (exit_code o oc) in
                L [Atom "cli"; Str (string_of_bytes out); Atom (string_of_int code);
                   Atom (match oc with Finished _ -> "finished" | RunError -> "run-error" | Halted _ -> "halted" | InputError _ -> "input-error"
                                     | WriteError -> "write-error" | OutOfModel -> "out-of-model")])))
  | "cli", [tree; L optl; L vars; Str stdin; Atom fuel] ->
      let has a = List.mem (Atom a) optl in
      let indent = (match List.find_opt (function L [Atom "indent"; _] -> true | _ -> false) optl with
                    | Some (L [_; Str i]) -> i | _ -> "  ") in
      let o = { o_null_input = has "null-input"; o_slurp = has "slurp";
                o_from = (if has "raw-input" then InRaw else if has "raw-input0" then InRaw0 else InJson);
                o_to = (if has "raw-output0" then OutRaw0 else if has "raw-output" || has "join" then OutRaw else OutJson);
                o_compact = has "compact"; o_join = has "join"; o_sort_keys = has "sort-keys";
                o_indent = bytes_of_string indent; o_exit_status = has "exit-status" } in
      let names = List.map (function L [Atom n; _] -> "$" ^ n | _ -> failwith "var") vars in
      let vals = List.map (function L [_; v] -> val_of_sx v | _ -> failwith "var") vars in
      let pre = get_pre names in
      let prog = compile_main !natives (List.map bytes_of_string names) pre (pterm_of tree) in
      let (out, oc) = run_cli (nat_of_int (int_of_string fuel)) o prog vals (bytes_of_string stdin) in
      let code = int_of_z (exit_code o oc) in
      L [Atom "cli"; Str (string_of_bytes out); Atom (string_of_int code);
         Atom (match oc with Finished _ -> "finished" | RunError -> "run-error" | Halted _ -> "halted" | InputError _ -> "input-error"
                           | WriteError -> "write-error" | OutOfModel -> "out-of-model")]
  | "compile", _ -> cmd_compile args
  | "tojson", [a] -> L [Atom "S"; Str (string_of_bytes (to_json (val_of_sx a)))]
  | "write", [indent; Atom sort; Atom sep; a] ->
      (* [write INDENT|none SORT SEPSPACE v]: the writer with the given pretty-printer options *)
      let ind = (match indent with Str i -> Some (bytes_of_string i) | _ -> None) in
      let p = { pp_indent = ind; pp_sort_keys = (sort = "true"); pp_sep_space = (sep = "true") } in
      L [Atom "S"; Str (string_of_bytes (write_val p O (val_of_sx a)))]
  | "yamlwrite", [indent; Atom sort; a] ->
      let ind = (match indent with Str i -> Some (bytes_of_string i) | _ -> None) in
      let p = { pp_indent = ind; pp_sort_keys = (sort = "true"); pp_sep_space = true } in
      L [Atom "S"; Str (string_of_bytes (yaml_write p O (val_of_sx a)))]
  | "lex", [Str text] ->
      (match lex (bytes_of_string text) with
       | Some ts -> L [Atom "ok"; L (List.map (fun t -> Str (string_of_bytes t)) ts)]
       | None -> L [Atom "error"])
  | "parse", [Str text] ->
      let (vs, e) = parse_many (nat_of_int (String.length text + 1)) (bytes_of_string text) in
      L [Atom "out"; L (List.map sx_of_val vs); (match e with None -> Atom "end" | Some _ -> L [Atom "errc"; Atom "parse"])]
  | "parse1", [Str text] ->
      (match parse_single (bytes_of_string text) with
       | POk (v, _) -> L [Atom "out"; L [sx_of_val v]; Atom "end"]
       | PErr _ -> L [Atom "out"; L []; L [Atom "errc"; Atom "parse"]])
  | _ -> L [Atom "model-error"; Str ("unknown command " ^ cmd)]

let () =
  if Array.length Sys.argv > 1 then load_env Sys.argv.(1);
  try
    while true do
      let line = input_line stdin in
      if String.trim line <> "" then begin
        let id, res =
          try
            match parse_sx line with
            | L (Atom id :: Atom cmd :: args) ->
                (id, (try dispatch cmd args with
                      | Failure m -> L [Atom "model-error"; Str m]
                      | Stack_overflow -> L [Atom "model-error"; Str "stack overflow"]
                      | Not_found -> L [Atom "model-error"; Str "not found"]))
            | _ -> ("?", L [Atom "model-error"; Str "bad case"])
          with Parse_error m -> ("?", L [Atom "model-error"; Str m])
        in
        print_string id; print_char '\t'; print_string (sx_to_string res); print_newline ()
      end
    done
  with End_of_file -> ()
