//! Minimal S-expressions: atoms, quoted strings (bytes), lists.
#[derive(Clone, Debug, PartialEq)]
pub enum Sx {
    Atom(String),
    Str(Vec<u8>),
    List(Vec<Sx>),
}

pub fn parse(s: &str) -> Result<Sx, String> {
    let b = s.as_bytes();
    let mut i = 0;
    let r = parse_at(b, &mut i)?;
    skip_ws(b, &mut i);
    if i != b.len() {
        return Err(format!("trailing input at {i}"));
    }
    Ok(r)
}

fn skip_ws(b: &[u8], i: &mut usize) {
    while *i < b.len() && (b[*i] == b' ' || b[*i] == b'\t' || b[*i] == b'\n' || b[*i] == b'\r') {
        *i += 1;
    }
}

fn hexval(c: u8) -> Option<u8> {
    match c {
        b'0'..=b'9' => Some(c - b'0'),
        b'a'..=b'f' => Some(c - b'a' + 10),
        b'A'..=b'F' => Some(c - b'A' + 10),
        _ => None,
    }
}

fn parse_at(b: &[u8], i: &mut usize) -> Result<Sx, String> {
    skip_ws(b, i);
    if *i >= b.len() {
        return Err("eof".into());
    }
    match b[*i] {
        b'(' => {
            *i += 1;
            let mut v = Vec::new();
            loop {
                skip_ws(b, i);
                if *i >= b.len() {
                    return Err("eof in list".into());
                }
                if b[*i] == b')' {
                    *i += 1;
                    return Ok(Sx::List(v));
                }
                v.push(parse_at(b, i)?);
            }
        }
        b')' => Err(format!("unexpected ) at {i}")),
        b'"' => {
            *i += 1;
            let mut v = Vec::new();
            loop {
                if *i >= b.len() {
                    return Err("eof in string".into());
                }
                let c = b[*i];
                *i += 1;
                match c {
                    b'"' => return Ok(Sx::Str(v)),
                    b'\\' => {
                        let d = *b.get(*i).ok_or("eof in escape")?;
                        *i += 1;
                        match d {
                            b'n' => v.push(b'\n'),
                            b't' => v.push(b'\t'),
                            b'r' => v.push(b'\r'),
                            b'\\' => v.push(b'\\'),
                            b'"' => v.push(b'"'),
                            b'x' => {
                                let h = hexval(*b.get(*i).ok_or("eof")?).ok_or("bad hex")?;
                                let l = hexval(*b.get(*i + 1).ok_or("eof")?).ok_or("bad hex")?;
                                *i += 2;
                                v.push(h * 16 + l);
                            }
                            _ => return Err("bad escape".into()),
                        }
                    }
                    c => v.push(c),
                }
            }
        }
        _ => {
            let st = *i;
            while *i < b.len() && !matches!(b[*i], b' ' | b'\t' | b'\n' | b'\r' | b'(' | b')' | b'"')
            {
                *i += 1;
            }
            Ok(Sx::Atom(String::from_utf8_lossy(&b[st..*i]).into_owned()))
        }
    }
}

pub fn quote(bs: &[u8], out: &mut String) {
    out.push('"');
    for &c in bs {
        match c {
            b'\n' => out.push_str("\\n"),
            b'\t' => out.push_str("\\t"),
            b'\r' => out.push_str("\\r"),
            b'\\' => out.push_str("\\\\"),
            b'"' => out.push_str("\\\""),
            0x20..=0x7e => out.push(c as char),
            _ => out.push_str(&format!("\\x{c:02x}")),
        }
    }
    out.push('"');
}

impl Sx {
    pub fn write(&self, out: &mut String) {
        match self {
            Sx::Atom(a) => out.push_str(a),
            Sx::Str(s) => quote(s, out),
            Sx::List(l) => {
                out.push('(');
                for (i, x) in l.iter().enumerate() {
                    if i > 0 {
                        out.push(' ');
                    }
                    x.write(out);
                }
                out.push(')');
            }
        }
    }
    pub fn to_string(&self) -> String {
        let mut s = String::new();
        self.write(&mut s);
        s
    }
    pub fn atom(&self) -> Option<&str> {
        match self {
            Sx::Atom(a) => Some(a),
            _ => None,
        }
    }
    pub fn list(&self) -> Option<&[Sx]> {
        match self {
            Sx::List(l) => Some(l),
            _ => None,
        }
    }
    pub fn bytes(&self) -> Option<&[u8]> {
        match self {
            Sx::Str(s) => Some(s),
            _ => None,
        }
    }
}

pub fn a(s: &str) -> Sx {
    Sx::Atom(s.to_string())
}
pub fn l(v: Vec<Sx>) -> Sx {
    Sx::List(v)
}
pub fn s(b: &[u8]) -> Sx {
    Sx::Str(b.to_vec())
}
