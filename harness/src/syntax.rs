//! jaq parse trees -> S-expressions (one constructor per `parse::Term` variant).
use crate::sexp::{a, l, s, Sx};
use jaq_core::load::lex::StrPart;
use jaq_core::load::parse::{BinaryOp, Def, Pattern, Term};
use jaq_core::ops::{Cmp, Math};
use jaq_core::path::{Opt, Part};

fn st(x: &str) -> Sx {
    s(x.as_bytes())
}

fn math(m: &Math) -> &'static str {
    match m {
        Math::Add => "Add",
        Math::Sub => "Sub",
        Math::Mul => "Mul",
        Math::Div => "Div",
        Math::Rem => "Rem",
    }
}

fn cmp(c: &Cmp) -> &'static str {
    match c {
        Cmp::Lt => "Lt",
        Cmp::Le => "Le",
        Cmp::Gt => "Gt",
        Cmp::Ge => "Ge",
        Cmp::Eq => "Eq",
        Cmp::Ne => "Ne",
    }
}

pub fn pattern(p: &Pattern<&str>) -> Sx {
    match p {
        Pattern::Var(x) => l(vec![a("PVar"), st(x)]),
        Pattern::Arr(ps) => {
            let mut v = vec![a("PArr")];
            v.extend(ps.iter().map(pattern));
            l(v)
        }
        Pattern::Obj(kps) => {
            let mut v = vec![a("PObj")];
            v.extend(kps.iter().map(|(k, p)| l(vec![term(k), pattern(p)])));
            l(v)
        }
    }
}

fn binop(op: &BinaryOp<&str>) -> Sx {
    match op {
        BinaryOp::Pipe(None) => l(vec![a("Pipe")]),
        BinaryOp::Pipe(Some(p)) => l(vec![a("Bind"), pattern(p)]),
        BinaryOp::Comma => l(vec![a("Comma")]),
        BinaryOp::Alt => l(vec![a("Alt")]),
        BinaryOp::Or => l(vec![a("Or")]),
        BinaryOp::And => l(vec![a("And")]),
        BinaryOp::Math(m) => l(vec![a("Math"), a(math(m))]),
        BinaryOp::Cmp(c) => l(vec![a("Cmp"), a(cmp(c))]),
        BinaryOp::Assign => l(vec![a("Assign")]),
        BinaryOp::Update => l(vec![a("Update")]),
        BinaryOp::UpdateMath(m) => l(vec![a("UpdateMath"), a(math(m))]),
        BinaryOp::UpdateAlt => l(vec![a("UpdateAlt")]),
    }
}

fn opt_term(t: &Option<Term<&str>>) -> Sx {
    match t {
        None => a("None"),
        Some(t) => l(vec![a("Some"), term(t)]),
    }
}

pub fn def(d: &Def<&str>) -> Sx {
    l(vec![
        st(d.name),
        l(d.args.iter().map(|x| st(x)).collect()),
        term(&d.body),
    ])
}

pub fn term(t: &Term<&str>) -> Sx {
    match t {
        Term::Id => l(vec![a("Id")]),
        Term::Recurse => l(vec![a("Recurse")]),
        Term::Num(n) => l(vec![a("Num"), st(n)]),
        Term::Str(fmt, parts) => {
            let f = match fmt {
                None => a("None"),
                Some(f) => l(vec![a("Some"), st(f)]),
            };
            let ps = parts
                .iter()
                .map(|p| match p {
                    StrPart::Str(x) => l(vec![a("S"), st(x)]),
                    StrPart::Char(c) => {
                        let mut b = [0u8; 4];
                        l(vec![a("S"), st(c.encode_utf8(&mut b))])
                    }
                    StrPart::Term(t) => l(vec![a("T"), term(t)]),
                })
                .collect();
            l(vec![a("Str"), f, l(ps)])
        }
        Term::Arr(t) => l(vec![a("Arr"), opt_term(&t.as_ref().map(|b| (**b).clone()))]),
        Term::Obj(kvs) => {
            let mut v = vec![a("Obj")];
            v.extend(kvs.iter().map(|(k, x)| l(vec![term(k), opt_term(x)])));
            l(v)
        }
        Term::Neg(t) => l(vec![a("Neg"), term(t)]),
        Term::BinOp(x, op, y) => l(vec![a("BinOp"), term(x), binop(op), term(y)]),
        Term::Label(x, t) => l(vec![a("Label"), st(x), term(t)]),
        Term::Break(x) => l(vec![a("Break"), st(x)]),
        Term::Fold(name, xs, pat, args) => l(vec![
            a("Fold"),
            st(name),
            term(xs),
            pattern(pat),
            l(args.iter().map(term).collect()),
        ]),
        Term::TryCatch(t, c) => l(vec![
            a("TryCatch"),
            term(t),
            opt_term(&c.as_ref().map(|b| (**b).clone())),
        ]),
        Term::IfThenElse(its, e) => l(vec![
            a("IfThenElse"),
            l(its.iter().map(|(i, t)| l(vec![term(i), term(t)])).collect()),
            opt_term(&e.as_ref().map(|b| (**b).clone())),
        ]),
        Term::Def(defs, t) => l(vec![a("Def"), l(defs.iter().map(def).collect()), term(t)]),
        Term::Call(name, args) => l(vec![a("Call"), st(name), l(args.iter().map(term).collect())]),
        Term::Var(x) => l(vec![a("Var"), st(x)]),
        Term::Path(t, path) => {
            let ps = path
                .0
                .iter()
                .map(|(p, o)| {
                    let o = match o {
                        Opt::Optional => a("Opt"),
                        Opt::Essential => a("Ess"),
                    };
                    let p = match p {
                        Part::Index(i) => l(vec![a("Index"), term(i)]),
                        Part::Range(f, u) => l(vec![a("Range"), opt_term(f), opt_term(u)]),
                    };
                    l(vec![p, o])
                })
                .collect();
            l(vec![a("Path"), term(t), l(ps)])
        }
    }
}
