//! jaq_json::Val <-> S-expression, representation-preserving.
use crate::sexp::{a, l, s, Sx};
use jaq_json::{Num, Rc, Val};
use num_bigint::BigInt;

pub fn to_sx(v: &Val) -> Sx {
    match v {
        Val::Null => a("null"),
        Val::Bool(true) => a("true"),
        Val::Bool(false) => a("false"),
        Val::Num(Num::Int(i)) => l(vec![a("I"), a(&i.to_string())]),
        Val::Num(Num::BigInt(i)) => l(vec![a("B"), a(&i.to_string())]),
        Val::Num(Num::Float(f)) => {
            let bits = if f.is_nan() { 0x7ff8000000000000u64 } else { f.to_bits() };
            l(vec![a("F"), a(&format!("{bits:016x}"))])
        }
        Val::Num(Num::Dec(d)) => l(vec![a("D"), s(d.as_bytes())]),
        Val::TStr(b) => l(vec![a("S"), s(b)]),
        Val::BStr(b) => l(vec![a("Y"), s(b)]),
        Val::Arr(xs) => {
            let mut v = vec![a("A")];
            v.extend(xs.iter().map(to_sx));
            l(v)
        }
        Val::Obj(o) => {
            let mut v = vec![a("O")];
            v.extend(o.iter().map(|(k, x)| l(vec![to_sx(k), to_sx(x)])));
            l(v)
        }
    }
}

pub fn from_sx(x: &Sx) -> Result<Val, String> {
    match x {
        Sx::Atom(t) => match t.as_str() {
            "null" => Ok(Val::Null),
            "true" => Ok(Val::Bool(true)),
            "false" => Ok(Val::Bool(false)),
            _ => Err(format!("bad value atom {t}")),
        },
        Sx::Str(_) => Err("bad value: string".into()),
        Sx::List(v) => {
            let tag = v.first().and_then(Sx::atom).ok_or("bad value: no tag")?;
            match tag {
                "I" => {
                    let i: isize = v[1].atom().ok_or("I")?.parse().map_err(|_| "I parse")?;
                    Ok(Val::Num(Num::Int(i)))
                }
                "B" => {
                    let i: BigInt = v[1].atom().ok_or("B")?.parse().map_err(|_| "B parse")?;
                    Ok(Val::Num(Num::big_int(i)))
                }
                "F" => {
                    let bits = u64::from_str_radix(v[1].atom().ok_or("F")?, 16).map_err(|_| "F parse")?;
                    Ok(Val::Num(Num::Float(f64::from_bits(bits))))
                }
                "D" => {
                    let t = String::from_utf8(v[1].bytes().ok_or("D")?.to_vec()).map_err(|_| "D utf8")?;
                    Ok(Val::Num(Num::Dec(Rc::new(t))))
                }
                "S" => Ok(Val::utf8_str(v[1].bytes().ok_or("S")?.to_vec())),
                "Y" => Ok(Val::byte_str(v[1].bytes().ok_or("Y")?.to_vec())),
                "A" => v[1..].iter().map(from_sx).collect::<Result<Val, _>>(),
                "O" => {
                    let mut m = jaq_json::Map::default();
                    for kv in &v[1..] {
                        let kv = kv.list().ok_or("O entry")?;
                        m.insert(from_sx(&kv[0])?, from_sx(&kv[1])?);
                    }
                    Ok(Val::obj(m))
                }
                _ => Err(format!("bad tag {tag}")),
            }
        }
    }
}
