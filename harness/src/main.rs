//! jaqh: drives the jaq crates of /repo on case files (one S-expression per line on stdin)
//! and prints one result line per case: `<id>\t<result-sexp>`.
mod sexp;
mod syntax;
mod val;

use jaq_all::data::{self, Data, DataKind, Runner};
use jaq_core::load::{import, Arena, File, Loader};
use jaq_core::{Compiler, Ctx, Vars};
use jaq_json::Val;
use jaq_std::input::RcIter;
use sexp::{a, l, s, Sx};
use std::io::{BufRead, Write};
use std::panic::{catch_unwind, AssertUnwindSafe};

fn err_sx(e: jaq_json::Error) -> Sx {
    l(vec![a("err"), val::to_sx(&e.into_val())])
}

/// Compile with all defs and funs, given global variable names (without `$`).
fn compile(code: &str, vars: &[String]) -> Result<data::Filter, String> {
    jaq_all::compile_with(code, jaq_all::defs(), data::funs(), vars)
        .map_err(|_| "compile".to_string())
}

/// `(run FILTER ((name V)...) (INPUT...) LIMIT)`
fn cmd_run(args: &[Sx]) -> Result<Sx, String> {
    let code = String::from_utf8(args[0].bytes().ok_or("filter")?.to_vec()).map_err(|_| "utf8")?;
    let mut names = Vec::new();
    let mut vals = Vec::new();
    for nv in args[1].list().ok_or("vars")? {
        let nv = nv.list().ok_or("var")?;
        names.push(nv[0].atom().ok_or("var name")?.to_string());
        vals.push(val::from_sx(&nv[1])?);
    }
    // `(cycle V...)`: an endless input stream repeating the given values
    let in_list = args[2].list().ok_or("inputs")?;
    let cycle = in_list.first().and_then(Sx::atom) == Some("cycle");
    let inputs: Vec<Val> = in_list[usize::from(cycle)..]
        .iter()
        .map(val::from_sx)
        .collect::<Result<_, _>>()?;
    let limit: usize = args[3].atom().ok_or("limit")?.parse().map_err(|_| "limit")?;
    let stop = args.get(4).and_then(Sx::atom) == Some("stop");

    let filter = match compile(&code, &names) {
        Ok(f) => f,
        Err(_) => return Ok(l(vec![a("out"), l(vec![]), a("compile-error"), a("0")])),
    };
    let n_inputs = inputs.len();
    let consumed = std::cell::Cell::new(0usize);
    let count = |v| {
        consumed.set(consumed.get() + 1);
        Ok::<Val, String>(v)
    };
    let inputs: Box<dyn Iterator<Item = Result<Val, String>>> = if cycle {
        Box::new(inputs.into_iter().cycle().map(count))
    } else {
        Box::new(inputs.into_iter().map(count))
    };
    let runner = Runner::default();
    let rc = RcIter::new(inputs);
    let data = Data {
        runner: &runner,
        lut: &filter.lut,
        inputs: &rc,
    };
    // jaq's convention (jaq/src/main.rs): global variables are given in order of declaration
    let ctx = Ctx::<DataKind>::new(&data, Vars::new(vals));
    let mut outs = Vec::new();
    let mut term = a("end");
    'outer: for x in data.inputs {
        let x = x.map_err(|e| e)?;
        for y in filter.id.run((ctx.clone(), x)) {
            if outs.len() >= limit {
                term = a("cut");
                break 'outer;
            }
            match y {
                Ok(v) => {
                    outs.push(val::to_sx(&v));
                    // `stop`: a consumer that drops the iterator right after its `limit`-th output
                    if stop && outs.len() == limit {
                        term = a("cut");
                        break 'outer;
                    }
                }
                Err(e) => {
                    term = match e.get_err() {
                        Ok(e) => err_sx(e),
                        Err(e) => match e.get_halt() {
                            Ok(c) => l(vec![a("halt"), a(&c.to_string())]),
                            Err(_) => a("escape"),
                        },
                    };
                    break 'outer;
                }
            }
        }
    }
    let _ = n_inputs;
    Ok(l(vec![a("out"), l(outs), term, a(&consumed.get().to_string())]))
}

/// `(parse FILTER)` -> parse tree of the main term (jaq's own lexer and parser).
fn cmd_parse(args: &[Sx]) -> Result<Sx, String> {
    let code = String::from_utf8(args[0].bytes().ok_or("filter")?.to_vec()).map_err(|_| "utf8")?;
    Ok(match jaq_core::load::parse(&code, |p| p.term()) {
        Some(t) => l(vec![a("ok"), syntax::term(&t)]),
        None => l(vec![a("error")]),
    })
}

/// `(defs FILE)` -> parse trees of the definitions of one of the three `defs.jq` (core|std|json).
fn cmd_defs(args: &[Sx]) -> Result<Sx, String> {
    let which = args[0].atom().ok_or("which")?;
    let defs: Vec<_> = match which {
        "core" => jaq_core::defs().collect(),
        "std" => jaq_std::defs().collect(),
        "json" => jaq_json::defs().collect(),
        _ => return Err("which".into()),
    };
    Ok(l(defs.iter().map(syntax::def).collect()))
}

/// `(lut FILTER)` -> Debug dump of the compiled `Filter<()>` (all natives as signatures only).
fn cmd_lut(args: &[Sx]) -> Result<Sx, String> {
    let code = String::from_utf8(args[0].bytes().ok_or("filter")?.to_vec()).map_err(|_| "utf8")?;
    let which = args.get(1).and_then(Sx::atom).unwrap_or("all");
    let arena = Arena::default();
    let defs: Vec<_> = match which {
        "none" => vec![],
        "core" => jaq_core::defs().collect(),
        _ => jaq_all::defs().collect(),
    };
    let loader = Loader::new(defs);
    let modules = match loader.load(&arena, File { path: (), code: &*code }) {
        Ok(m) => m,
        Err(_) => return Ok(l(vec![a("load-error")])),
    };
    if import(&modules, |_p| Err("no files".into())).is_err() {
        return Ok(l(vec![a("load-error")]));
    }
    let sigs: Vec<_> = match which {
        "none" => vec![],
        "core" => jaq_core::funs::<DataKind>().map(|(n, args, _)| (n, args, ())).collect(),
        _ => data::funs().map(|(n, args, _)| (n, args, ())).collect(),
    };
    let c = jaq_core::compile::Compiler::<&str, ()>::default().with_funs(sigs);
    Ok(match c.compile(modules) {
        Ok(f) => l(vec![a("ok"), s(format!("{f:?}").as_bytes())]),
        Err(_) => l(vec![a("compile-error")]),
    })
}

/// `(natives)` -> registry of native filters: name, argument kinds.
fn cmd_natives() -> Result<Sx, String> {
    let mut v = Vec::new();
    for (name, args, _) in data::funs() {
        let ks: String = args
            .iter()
            .map(|b| match b {
                jaq_core::Bind::Var(()) => 'v',
                jaq_core::Bind::Fun(()) => 'f',
            })
            .collect();
        v.push(l(vec![s(name.as_bytes()), a(&format!("_{ks}"))]));
    }
    Ok(l(v))
}

/// `(tokens FILTER)` -> the token texts of the program in order (blocks flattened, strings atomic)
fn cmd_tokens(args: &[Sx]) -> Result<Sx, String> {
    use jaq_core::load::lex::{Lexer, Tok, Token};
    let code = String::from_utf8(args[0].bytes().ok_or("filter")?.to_vec()).map_err(|_| "utf8")?;
    fn flat<'a>(ts: &[Token<&'a str>], out: &mut Vec<Sx>) {
        for Token(text, tok) in ts {
            match tok {
                Tok::Block(inner) => {
                    out.push(s(text[..1].as_bytes()));
                    flat(inner, out);
                }
                _ => out.push(s(text.as_bytes())),
            }
        }
    }
    Ok(match Lexer::new(&*code).lex() {
        Ok(ts) => {
            let mut out = Vec::new();
            flat(&ts, &mut out);
            l(vec![a("ok"), l(out)])
        }
        Err(_) => l(vec![a("error")]),
    })
}

/// `(diag FILTER)` -> how the filter is rejected: the rendered reports and every span they point to
fn cmd_diag(args: &[Sx]) -> Result<Sx, String> {
    let code = String::from_utf8(args[0].bytes().ok_or("filter")?.to_vec()).map_err(|_| "utf8")?;
    match jaq_all::compile_with(&code, jaq_all::defs(), data::funs(), &[]) {
        Ok(_) => Ok(l(vec![a("accepted")])),
        Err(frs) => {
            let mut spans = Vec::new();
            let mut rendered = 0usize;
            for fr in &frs {
                // as jaq's main does: plain and coloured
                let plain = jaq_all::load::FileReportsDisp::new(fr).to_string();
                let paint: jaq_all::load::Paint = |f, c, d| match c {
                    Some(c) => c.ansi(f, d),
                    None => d.fmt(f),
                };
                let colour = jaq_all::load::FileReportsDisp::new(fr).with_paint(paint).to_string();
                rendered += plain.len() + colour.len();
                if plain.is_empty() {
                    return Ok(l(vec![a("empty-report")]));
                }
                // the spans are private to the reports; their Debug form shows them as `a..b`
                let dbg = format!("{:?}", fr.1);
                let b = dbg.as_bytes();
                let mut i = 0;
                while i + 1 < b.len() {
                    if b[i] == b'.' && b[i + 1] == b'.' {
                        let mut x = i;
                        while x > 0 && b[x - 1].is_ascii_digit() {
                            x -= 1;
                        }
                        let mut y = i + 2;
                        while y < b.len() && b[y].is_ascii_digit() {
                            y += 1;
                        }
                        if x < i && y > i + 2 {
                            spans.push(l(vec![a(&dbg[x..i]), a(&dbg[i + 2..y])]));
                        }
                        i = y;
                    } else {
                        i += 1;
                    }
                }
            }
            let on_boundary = |n: &Sx| {
                n.atom()
                    .and_then(|n| n.parse::<usize>().ok())
                    .map(|n| n <= code.len() && code.is_char_boundary(n))
            };
            let all_ok = spans.iter().all(|sp| {
                let sp = sp.list().unwrap();
                on_boundary(&sp[0]) == Some(true) && on_boundary(&sp[1]) == Some(true)
            });
            Ok(l(vec![
                a("rejected"),
                a(&rendered.to_string()),
                l(spans),
                a(&code.len().to_string()),
                a(if all_ok { "inside" } else { "outside" }),
            ]))
        }
    }
}

/// `(decode FORMAT DOC)` -> number of values and whether an error ended the document, through both
/// entry points of the format readers (`parse` on bytes, `read` on a reader), plain and slurped;
/// every decoded value is also written as JSON and displayed.
fn cmd_decode(args: &[Sx]) -> Result<Sx, String> {
    use jaq_all::fmts::{read, Format};
    let fmt = Format::parse(args[0].atom().ok_or("format")?).ok_or("unknown format")?;
    let doc = args[1].bytes().ok_or("doc")?.to_vec();
    let bytes = bytes::Bytes::from(doc);
    let mut res = Vec::new();
    for slurp in [false, true] {
        for entry in ["parse", "read"] {
            let s = match read::bytes_str(fmt, &bytes) {
                Ok(s) => s.to_string(),
                Err(_) => {
                    res.push(l(vec![a(entry), a("not-utf8")]));
                    continue;
                }
            };
            let vals = match entry {
                "parse" => read::parse(fmt, &bytes, &s, slurp),
                _ => read::read(fmt, std::io::Cursor::new(&bytes[..]), &s, slurp),
            };
            let mut n = 0usize;
            let mut err = false;
            let mut sink = Vec::new();
            for v in vals.take(10000) {
                match v {
                    Ok(v) => {
                        n += 1;
                        sink.clear();
                        let _ = jaq_json::write::write(&mut sink, &Default::default(), 0, &v);
                        let _ = v.to_string();
                    }
                    Err(e) => {
                        let _ = e.to_string();
                        err = true;
                        break;
                    }
                }
            }
            res.push(l(vec![a(entry), a(&n.to_string()), a(if err { "error" } else { "end" })]));
        }
    }
    Ok(l(vec![a("decoded"), l(res)]))
}

/// Stand-alone mode `jaqh --sweep`: one command `(FILTER NVARS (POOL...) START MODE [SEED COUNT])` on stdin.
/// The filter (with global variables `$a0`, `$a1`, ...) is compiled once and run on tuples of pool values
/// (input, a0, a1, ...); before each tuple its index is printed, so that a hang or an abort is attributed.
fn sweep() -> Result<(), String> {
    let mut text = String::new();
    std::io::Read::read_to_string(&mut std::io::stdin(), &mut text).map_err(|e| e.to_string())?;
    let cmd = match sexp::parse(text.trim())? {
        Sx::List(v) => v,
        _ => return Err("sweep command".into()),
    };
    let code = String::from_utf8(cmd[0].bytes().ok_or("filter")?.to_vec()).map_err(|_| "utf8")?;
    let nvars: usize = cmd[1].atom().ok_or("nvars")?.parse().map_err(|_| "nvars")?;
    let pool: Vec<Val> = cmd[2].list().ok_or("pool")?.iter().map(val::from_sx).collect::<Result<_, _>>()?;
    let start: u64 = cmd[3].atom().ok_or("start")?.parse().map_err(|_| "start")?;
    let mode = cmd[4].atom().ok_or("mode")?;
    let names: Vec<String> = (0..nvars).map(|i| format!("a{i}")).collect();
    let out = std::io::stdout();
    let filter = match compile(&code, &names) {
        Ok(f) => f,
        Err(_) => {
            writeln!(out.lock(), "compile-error").unwrap();
            return Ok(());
        }
    };
    let p = pool.len() as u64;
    let total_all = p.pow(1 + nvars as u32);
    let (total, seed) = match mode {
        "all" => (total_all, 0u64),
        _ => (
            cmd[6].atom().ok_or("count")?.parse().map_err(|_| "count")?,
            cmd[5].atom().ok_or("seed")?.parse().map_err(|_| "seed")?,
        ),
    };
    let mut lcg = seed;
    for t in 0..total {
        let idx = if mode == "all" {
            t
        } else {
            lcg = lcg.wrapping_mul(6364136223846793005).wrapping_add(1442695040888963407);
            (lcg >> 16) % total_all
        };
        if t < start {
            continue;
        }
        let mut digits = Vec::new();
        let mut x = idx;
        for _ in 0..=nvars {
            digits.push((x % p) as usize);
            x /= p;
        }
        {
            let mut o = out.lock();
            writeln!(o, "t {t} {}", digits.iter().map(|d| d.to_string()).collect::<Vec<_>>().join(" ")).unwrap();
            o.flush().unwrap();
        }
        let input = pool[digits[0]].clone();
        let vals: Vec<Val> = digits[1..].iter().map(|d| pool[*d].clone()).collect();
        let r = catch_unwind(AssertUnwindSafe(|| {
            let inputs: Box<dyn Iterator<Item = Result<Val, String>>> = Box::new(core::iter::empty());
            let runner = Runner::default();
            let rc = RcIter::new(inputs);
            let data = Data { runner: &runner, lut: &filter.lut, inputs: &rc };
            let ctx = Ctx::<DataKind>::new(&data, Vars::new(vals));
            let mut n = 0;
            for y in filter.id.run((ctx, input)).take(6) {
                n += 1;
                match y {
                    // rendering of results and errors is part of what jaq does with them
                    Ok(v) => drop(v.to_string()),
                    Err(e) => {
                        if let Ok(e) = e.get_err() {
                            drop(e.to_string());
                        }
                        break;
                    }
                }
            }
            n
        }));
        if let Err(pn) = r {
            let msg = pn
                .downcast_ref::<String>()
                .cloned()
                .or_else(|| pn.downcast_ref::<&str>().map(|s| s.to_string()))
                .unwrap_or_default();
            let mut o = out.lock();
            writeln!(o, "p {t} {}", msg.replace('\n', " ")).unwrap();
            o.flush().unwrap();
        }
    }
    writeln!(out.lock(), "done {total}").unwrap();
    Ok(())
}

/// The static fact: a compiled filter can be shared between threads; with the feature `sync`, so can values.
#[allow(dead_code)]
fn static_facts() {
    fn send_sync<T: Send + Sync>() {}
    send_sync::<data::Filter>();
    send_sync::<jaq_core::Lut<DataKind>>();
    #[cfg(feature = "sync")]
    send_sync::<Val>();
}

/// Compile with a different list of native filters (one more in front): compilations with different lists may coexist.
fn compile_alt(code: &str, vars: &[String]) -> Result<data::Filter, String> {
    let extra: jaq_core::native::Fun<DataKind> = jaq_core::native::run::<DataKind>((
        "verif_answer",
        jaq_core::native::v(0),
        |_| jaq_core::box_iter::box_once(Ok(Val::from(42isize))),
    ));
    jaq_all::compile_with(code, jaq_all::defs(), core::iter::once(extra).chain(data::funs()), vars)
        .map_err(|_| "compile".to_string())
}

/// One isolated run: the outputs (at most `limit`) and the terminator, as text.
fn run_text(filter: &data::Filter, vals: Vec<Val>, inputs: Vec<Val>, limit: usize) -> String {
    let inputs: Box<dyn Iterator<Item = Result<Val, String>>> = Box::new(inputs.into_iter().map(Ok));
    let runner = Runner::default();
    let rc = RcIter::new(inputs);
    let data = Data { runner: &runner, lut: &filter.lut, inputs: &rc };
    let ctx = Ctx::<DataKind>::new(&data, Vars::new(vals));
    let mut out = String::new();
    let mut n = 0;
    'outer: for x in data.inputs {
        let Ok(x) = x else { break };
        for y in filter.id.run((ctx.clone(), x)) {
            if n >= limit {
                out.push_str(" cut");
                break 'outer;
            }
            n += 1;
            match y {
                Ok(v) => {
                    out.push(' ');
                    out.push_str(&val::to_sx(&v).to_string());
                }
                Err(e) => {
                    out.push_str(" error:");
                    match e.get_err() {
                        Ok(e) => out.push_str(&val::to_sx(&e.into_val()).to_string()),
                        Err(_) => out.push_str("exception"),
                    }
                    break 'outer;
                }
            }
        }
    }
    out
}

/// `(threads ((FILTER ((name V)...) (INPUT...))...) T R LIMIT)`: every program is compiled once; then T threads run all
/// the programs R times concurrently on the shared compiled filters (values are built inside the threads; with the
/// feature `sync` the input values are shared, too), while one more thread keeps compiling the programs again.
/// Every result is compared with the result of the isolated run made before.
/// threads with the stack of the main thread (deep, non-tail recursion of a program is not what is tested here)
fn big() -> std::thread::Builder {
    std::thread::Builder::new().stack_size(64 << 20)
}

fn cmd_threads(args: &[Sx]) -> Result<Sx, String> {
    let progs = args[0].list().ok_or("programs")?;
    let t: usize = args[1].atom().ok_or("T")?.parse().map_err(|_| "T")?;
    let r: usize = args[2].atom().ok_or("R")?.parse().map_err(|_| "R")?;
    let limit: usize = args[3].atom().ok_or("limit")?.parse().map_err(|_| "limit")?;
    struct Prog {
        code: String,
        names: Vec<String>,
        vals: Vec<Sx>,
        inputs: Vec<Sx>,
        filter: data::Filter,
        alone: String,
    }
    let mut ps = Vec::new();
    let mut skipped = 0;
    for p in progs {
        let p = p.list().ok_or("program")?;
        let code = String::from_utf8(p[0].bytes().ok_or("filter")?.to_vec()).map_err(|_| "utf8")?;
        let mut names = Vec::new();
        let mut vals = Vec::new();
        for nv in p[1].list().ok_or("vars")? {
            let nv = nv.list().ok_or("var")?;
            names.push(nv[0].atom().ok_or("var name")?.to_string());
            vals.push(nv[1].clone());
        }
        let inputs: Vec<Sx> = p[2].list().ok_or("inputs")?.to_vec();
        let Ok(filter) = compile(&code, &names) else {
            skipped += 1;
            continue;
        };
        let mk = |xs: &[Sx]| xs.iter().map(val::from_sx).collect::<Result<Vec<Val>, _>>();
        let alone = run_text(&filter, mk(&vals)?, mk(&inputs)?, limit);
        // determinism: the same run again
        let again = run_text(&filter, mk(&vals)?, mk(&inputs)?, limit);
        if alone != again {
            return Ok(l(vec![a("differ"), a("rerun"), s(code.as_bytes()), s(alone.as_bytes()), s(again.as_bytes())]));
        }
        ps.push(Prog { code, names, vals, inputs, filter, alone });
    }
    #[cfg(feature = "sync")]
    let shared: Vec<(Vec<Val>, Vec<Val>)> = ps
        .iter()
        .map(|p| {
            let mk = |xs: &[Sx]| xs.iter().map(|x| val::from_sx(x).unwrap()).collect::<Vec<Val>>();
            (mk(&p.vals), mk(&p.inputs))
        })
        .collect();
    let differ = std::sync::Mutex::new(None);
    let stop = std::sync::atomic::AtomicBool::new(false);
    let barrier = std::sync::Barrier::new(t);
    std::thread::scope(|sc| {
        // a thread that compiles while the others run, with two different lists of natives in turn
        big().spawn_scoped(sc, || {
            let mut k = 0usize;
            while !stop.load(std::sync::atomic::Ordering::Relaxed) {
                for p in &ps {
                    k += 1;
                    let _ = if k % 2 == 0 { compile(&p.code, &p.names) } else { compile_alt(&p.code, &p.names) };
                }
            }
        }).unwrap();
        let mut hs = Vec::new();
        for ti in 0..t {
            let ps = &ps;
            let differ = &differ;
            #[cfg(feature = "sync")]
            let shared = &shared;
            hs.push(big().spawn_scoped(sc, move || {
                for ri in 0..r {
                    // threads walk the programs in different orders
                    for k in 0..ps.len() {
                        let i = (k * (2 * ti + 1) + ri) % ps.len();
                        let p = &ps[i];
                        #[cfg(feature = "sync")]
                        let (vals, inputs) = shared[i].clone();
                        #[cfg(not(feature = "sync"))]
                        let (vals, inputs) = {
                            let mk = |xs: &[Sx]| xs.iter().map(|x| val::from_sx(x).unwrap()).collect::<Vec<Val>>();
                            (mk(&p.vals), mk(&p.inputs))
                        };
                        // mostly the shared compiled filter; now and then a fresh compilation (either list of natives)
                        let fresh = (k + ti + ri) % 7 == 0;
                        let got = catch_unwind(AssertUnwindSafe(|| {
                            if fresh {
                                let f = if (k + ti) % 2 == 0 { compile(&p.code, &p.names) } else { compile_alt(&p.code, &p.names) };
                                match f {
                                    Ok(f) => run_text(&f, vals, inputs, limit),
                                    Err(_) => "does-not-compile".to_string(),
                                }
                            } else {
                                run_text(&p.filter, vals, inputs, limit)
                            }
                        }))
                        .unwrap_or_else(|_| "panic".to_string());
                        if got != p.alone {
                            let mut d = differ.lock().unwrap();
                            if d.is_none() {
                                *d = Some((i, ti, ri, got));
                            }
                            return;
                        }
                    }
                }
            }).unwrap());
        }
        for h in hs {
            let _ = h.join();
        }
        // second phase: all threads run the same shared filter at the same time, program after program
        let mut hs = Vec::new();
        for ti in 0..t {
            let ps = &ps;
            let differ = &differ;
            let barrier = &barrier;
            #[cfg(feature = "sync")]
            let shared = &shared;
            hs.push(big().spawn_scoped(sc, move || {
                for (i, p) in ps.iter().enumerate() {
                    barrier.wait();
                    for ri in 0..(r * 8) {
                        #[cfg(feature = "sync")]
                        let (vals, inputs) = shared[i].clone();
                        #[cfg(not(feature = "sync"))]
                        let (vals, inputs) = {
                            let mk = |xs: &[Sx]| xs.iter().map(|x| val::from_sx(x).unwrap()).collect::<Vec<Val>>();
                            (mk(&p.vals), mk(&p.inputs))
                        };
                        let got = catch_unwind(AssertUnwindSafe(|| run_text(&p.filter, vals, inputs, limit)))
                            .unwrap_or_else(|_| "panic".to_string());
                        if got != p.alone {
                            let mut d = differ.lock().unwrap();
                            if d.is_none() {
                                *d = Some((i, ti, 1000 + ri, got));
                            }
                            break;
                        }
                    }
                }
            }).unwrap());
        }
        for h in hs {
            let _ = h.join();
        }
        stop.store(true, std::sync::atomic::Ordering::Relaxed);
    });
    let d = differ.into_inner().unwrap();
    Ok(match d {
        None => l(vec![a("same"), a(&ps.len().to_string()), a(&skipped.to_string()), a(if cfg!(feature = "sync") { "shared-values" } else { "own-values" })]),
        Some((i, ti, ri, got)) => l(vec![
            a("differ"),
            a(&format!("thread{ti}-rep{ri}")),
            s(ps[i].code.as_bytes()),
            s(ps[i].alone.as_bytes()),
            s(got.as_bytes()),
        ]),
    })
}

fn dispatch(cmd: &str, args: &[Sx]) -> Result<Sx, String> {
    match cmd {
        "run" => cmd_run(args),
        "parse" => cmd_parse(args),
        "defs" => cmd_defs(args),
        "lut" => cmd_lut(args),
        "natives" => cmd_natives(),
        "tokens" => cmd_tokens(args),
        "diag" => cmd_diag(args),
        "decode" => cmd_decode(args),
        "threads" => cmd_threads(args),
        _ => Err(format!("unknown command {cmd}")),
    }
}

fn main() {
    // silence panic messages; panics are outcomes
    std::panic::set_hook(Box::new(|_| {}));
    let _ = Compiler::<&str, DataKind>::default();
    if std::env::args().nth(1).as_deref() == Some("--sweep") {
        if let Err(e) = sweep() {
            println!("sweep-error {e}");
        }
        return;
    }
    let stdin = std::io::stdin();
    let stdout = std::io::stdout();
    for line in stdin.lock().lines() {
        let line = line.unwrap();
        if line.trim().is_empty() {
            continue;
        }
        let (id, res) = match sexp::parse(&line) {
            Ok(Sx::List(v)) if v.len() >= 2 => {
                let id = v[0].atom().unwrap_or("?").to_string();
                let cmd = v[1].atom().unwrap_or("?").to_string();
                // announce the case so that the driver can attribute a crash or time-out
                {
                    let mut o = stdout.lock();
                    writeln!(o, "{id}\t(start)").unwrap();
                    o.flush().unwrap();
                }
                let r = catch_unwind(AssertUnwindSafe(|| dispatch(&cmd, &v[2..])));
                let r = match r {
                    Ok(Ok(x)) => x,
                    Ok(Err(e)) => l(vec![a("harness-error"), s(e.as_bytes())]),
                    Err(p) => {
                        let msg = p
                            .downcast_ref::<String>()
                            .cloned()
                            .or_else(|| p.downcast_ref::<&str>().map(|s| s.to_string()))
                            .unwrap_or_default();
                        l(vec![a("panic"), s(msg.as_bytes())])
                    }
                };
                (id, r)
            }
            Ok(_) => ("?".to_string(), l(vec![a("harness-error"), s(b"bad case")])),
            Err(e) => ("?".to_string(), l(vec![a("harness-error"), s(e.as_bytes())])),
        };
        let mut o = stdout.lock();
        writeln!(o, "{id}\t{}", res.to_string()).unwrap();
        o.flush().unwrap();
    }
}
