//! jaqh: drives the jaq crates of /repo on case files (one S-expression per line on stdin)
//! and prints one result line per case: `<id>\t<result-sexp>`.
mod sexp;
mod syntax;
mod val;

use jaq_all::data::{self, Data, DataKind, Runner};
use jaq_core::load::{import, Arena, File, Loader};
use jaq_core::{Compiler, Ctx, Vars};
use jaq_json::Val;
use jaq_std::input::RcIter;
use sexp::{a, l, s, Sx};
use std::io::{BufRead, Write};
use std::panic::{catch_unwind, AssertUnwindSafe};

fn err_sx(e: jaq_json::Error) -> Sx {
    l(vec![a("err"), val::to_sx(&e.into_val())])
}

/// Compile with all defs and funs, given global variable names (without `$`).
fn compile(code: &str, vars: &[String]) -> Result<data::Filter, String> {
    jaq_all::compile_with(code, jaq_all::defs(), data::funs(), vars)
        .map_err(|_| "compile".to_string())
}

/// `(run FILTER ((name V)...) (INPUT...) LIMIT)`
fn cmd_run(args: &[Sx]) -> Result<Sx, String> {
    let code = String::from_utf8(args[0].bytes().ok_or("filter")?.to_vec()).map_err(|_| "utf8")?;
    let mut names = Vec::new();
    let mut vals = Vec::new();
    for nv in args[1].list().ok_or("vars")? {
        let nv = nv.list().ok_or("var")?;
        names.push(nv[0].atom().ok_or("var name")?.to_string());
        vals.push(val::from_sx(&nv[1])?);
    }
    // `(cycle V...)`: an endless input stream repeating the given values
    let in_list = args[2].list().ok_or("inputs")?;
    let cycle = in_list.first().and_then(Sx::atom) == Some("cycle");
    let inputs: Vec<Val> = in_list[usize::from(cycle)..]
        .iter()
        .map(val::from_sx)
        .collect::<Result<_, _>>()?;
    let limit: usize = args[3].atom().ok_or("limit")?.parse().map_err(|_| "limit")?;
    let stop = args.get(4).and_then(Sx::atom) == Some("stop");

    let filter = match compile(&code, &names) {
        Ok(f) => f,
        Err(_) => return Ok(l(vec![a("out"), l(vec![]), a("compile-error"), a("0")])),
    };
    let n_inputs = inputs.len();
    let consumed = std::cell::Cell::new(0usize);
    let count = |v| {
        consumed.set(consumed.get() + 1);
        Ok::<Val, String>(v)
    };
    let inputs: Box<dyn Iterator<Item = Result<Val, String>>> = if cycle {
        Box::new(inputs.into_iter().cycle().map(count))
    } else {
        Box::new(inputs.into_iter().map(count))
    };
    let runner = Runner::default();
    let rc = RcIter::new(inputs);
    let data = Data {
        runner: &runner,
        lut: &filter.lut,
        inputs: &rc,
    };
    // jaq's convention (jaq/src/main.rs): global variables are given in order of declaration
    let ctx = Ctx::<DataKind>::new(&data, Vars::new(vals));
    let mut outs = Vec::new();
    let mut term = a("end");
    'outer: for x in data.inputs {
        let x = x.map_err(|e| e)?;
        for y in filter.id.run((ctx.clone(), x)) {
            if outs.len() >= limit {
                term = a("cut");
                break 'outer;
            }
            match y {
                Ok(v) => {
                    outs.push(val::to_sx(&v));
                    // `stop`: a consumer that drops the iterator right after its `limit`-th output
                    if stop && outs.len() == limit {
                        term = a("cut");
                        break 'outer;
                    }
                }
                Err(e) => {
                    term = match e.get_err() {
                        Ok(e) => err_sx(e),
                        Err(e) => match e.get_halt() {
                            Ok(c) => l(vec![a("halt"), a(&c.to_string())]),
                            Err(_) => a("escape"),
                        },
                    };
                    break 'outer;
                }
            }
        }
    }
    let _ = n_inputs;
    Ok(l(vec![a("out"), l(outs), term, a(&consumed.get().to_string())]))
}

/// `(parse FILTER)` -> parse tree of the main term (jaq's own lexer and parser).
fn cmd_parse(args: &[Sx]) -> Result<Sx, String> {
    let code = String::from_utf8(args[0].bytes().ok_or("filter")?.to_vec()).map_err(|_| "utf8")?;
    Ok(match jaq_core::load::parse(&code, |p| p.term()) {
        Some(t) => l(vec![a("ok"), syntax::term(&t)]),
        None => l(vec![a("error")]),
    })
}

/// `(defs FILE)` -> parse trees of the definitions of one of the three `defs.jq` (core|std|json).
fn cmd_defs(args: &[Sx]) -> Result<Sx, String> {
    let which = args[0].atom().ok_or("which")?;
    let defs: Vec<_> = match which {
        "core" => jaq_core::defs().collect(),
        "std" => jaq_std::defs().collect(),
        "json" => jaq_json::defs().collect(),
        _ => return Err("which".into()),
    };
    Ok(l(defs.iter().map(syntax::def).collect()))
}

/// `(lut FILTER)` -> Debug dump of the compiled `Filter<()>` (all natives as signatures only).
fn cmd_lut(args: &[Sx]) -> Result<Sx, String> {
    let code = String::from_utf8(args[0].bytes().ok_or("filter")?.to_vec()).map_err(|_| "utf8")?;
    let which = args.get(1).and_then(Sx::atom).unwrap_or("all");
    let arena = Arena::default();
    let defs: Vec<_> = match which {
        "none" => vec![],
        "core" => jaq_core::defs().collect(),
        _ => jaq_all::defs().collect(),
    };
    let loader = Loader::new(defs);
    let modules = match loader.load(&arena, File { path: (), code: &*code }) {
        Ok(m) => m,
        Err(_) => return Ok(l(vec![a("load-error")])),
    };
    if import(&modules, |_p| Err("no files".into())).is_err() {
        return Ok(l(vec![a("load-error")]));
    }
    let sigs: Vec<_> = match which {
        "none" => vec![],
        "core" => jaq_core::funs::<DataKind>().map(|(n, args, _)| (n, args, ())).collect(),
        _ => data::funs().map(|(n, args, _)| (n, args, ())).collect(),
    };
    let c = jaq_core::compile::Compiler::<&str, ()>::default().with_funs(sigs);
    Ok(match c.compile(modules) {
        Ok(f) => l(vec![a("ok"), s(format!("{f:?}").as_bytes())]),
        Err(_) => l(vec![a("compile-error")]),
    })
}

/// `(natives)` -> registry of native filters: name, argument kinds.
fn cmd_natives() -> Result<Sx, String> {
    let mut v = Vec::new();
    for (name, args, _) in data::funs() {
        let ks: String = args
            .iter()
            .map(|b| match b {
                jaq_core::Bind::Var(()) => 'v',
                jaq_core::Bind::Fun(()) => 'f',
            })
            .collect();
        v.push(l(vec![s(name.as_bytes()), a(&format!("_{ks}"))]));
    }
    Ok(l(v))
}

/// `(tokens FILTER)` -> the token texts of the program in order (blocks flattened, strings atomic)
fn cmd_tokens(args: &[Sx]) -> Result<Sx, String> {
    use jaq_core::load::lex::{Lexer, Tok, Token};
    let code = String::from_utf8(args[0].bytes().ok_or("filter")?.to_vec()).map_err(|_| "utf8")?;
    fn flat<'a>(ts: &[Token<&'a str>], out: &mut Vec<Sx>) {
        for Token(text, tok) in ts {
            match tok {
                Tok::Block(inner) => {
                    out.push(s(text[..1].as_bytes()));
                    flat(inner, out);
                }
                _ => out.push(s(text.as_bytes())),
            }
        }
    }
    Ok(match Lexer::new(&*code).lex() {
        Ok(ts) => {
            let mut out = Vec::new();
            flat(&ts, &mut out);
            l(vec![a("ok"), l(out)])
        }
        Err(_) => l(vec![a("error")]),
    })
}

fn dispatch(cmd: &str, args: &[Sx]) -> Result<Sx, String> {
    match cmd {
        "run" => cmd_run(args),
        "parse" => cmd_parse(args),
        "defs" => cmd_defs(args),
        "lut" => cmd_lut(args),
        "natives" => cmd_natives(),
        "tokens" => cmd_tokens(args),
        _ => Err(format!("unknown command {cmd}")),
    }
}

fn main() {
    // silence panic messages; panics are outcomes
    std::panic::set_hook(Box::new(|_| {}));
    let _ = Compiler::<&str, DataKind>::default();
    let stdin = std::io::stdin();
    let stdout = std::io::stdout();
    for line in stdin.lock().lines() {
        let line = line.unwrap();
        if line.trim().is_empty() {
            continue;
        }
        let (id, res) = match sexp::parse(&line) {
            Ok(Sx::List(v)) if v.len() >= 2 => {
                let id = v[0].atom().unwrap_or("?").to_string();
                let cmd = v[1].atom().unwrap_or("?").to_string();
                // announce the case so that the driver can attribute a crash or time-out
                {
                    let mut o = stdout.lock();
                    writeln!(o, "{id}\t(start)").unwrap();
                    o.flush().unwrap();
                }
                let r = catch_unwind(AssertUnwindSafe(|| dispatch(&cmd, &v[2..])));
                let r = match r {
                    Ok(Ok(x)) => x,
                    Ok(Err(e)) => l(vec![a("harness-error"), s(e.as_bytes())]),
                    Err(p) => {
                        let msg = p
                            .downcast_ref::<String>()
                            .cloned()
                            .or_else(|| p.downcast_ref::<&str>().map(|s| s.to_string()))
                            .unwrap_or_default();
                        l(vec![a("panic"), s(msg.as_bytes())])
                    }
                };
                (id, r)
            }
            Ok(_) => ("?".to_string(), l(vec![a("harness-error"), s(b"bad case")])),
            Err(e) => ("?".to_string(), l(vec![a("harness-error"), s(e.as_bytes())])),
        };
        let mut o = stdout.lock();
        writeln!(o, "{id}\t{}", res.to_string()).unwrap();
        o.flush().unwrap();
    }
}
