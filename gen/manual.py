"""Translator: extracts the `filter --> outputs` examples from /repo/docs/*.dj (what docs/tests.jq extracts:
every code span or block containing `-->`, comments stripped, input null)."""
import html
import os
import re

REPO = os.environ.get("JAQ_REPO", "/repo")


def code_spans(text):
    """inline code (1-3 backticks) and fenced blocks of a djot document"""
    out = []
    # fenced blocks first
    fence = re.compile(r"(?ms)^(`{3,}|~{3,})[^\n]*\n(.*?)^\1[ \t]*$")
    pos = 0
    rest = []
    for m in fence.finditer(text):
        rest.append(text[pos:m.start()])
        out.append(m.group(2))
        pos = m.end()
    rest.append(text[pos:])
    text = "\n".join(rest)
    i = 0
    n = len(text)
    while i < n:
        if text[i] == "`":
            j = i
            while j < n and text[j] == "`":
                j += 1
            ticks = text[i:j]
            k = text.find(ticks, j)
            while k != -1 and (k + len(ticks) < n and text[k + len(ticks)] == "`"):
                # longer run: skip it
                kk = k
                while kk < n and text[kk] == "`":
                    kk += 1
                k = text.find(ticks, kk)
            if k == -1:
                break
            out.append(text[j:k])
            i = k + len(ticks)
        else:
            i += 1
    return out


def examples():
    """-> list of (file, filter, expected_text)"""
    res = []
    docs = os.path.join(REPO, "docs")
    for fn in sorted(os.listdir(docs)):
        if not fn.endswith(".dj"):
            continue
        text = open(os.path.join(docs, fn), encoding="utf-8").read()
        for code in code_spans(text):
            if "-->" not in code:
                continue
            parts = code.split("-->")
            if len(parts) < 2:
                continue
            flt = re.sub(r"#[^\n]*", "", parts[0])
            flt = flt.replace("\n", "").strip()
            exp = parts[1].replace("\n", "").strip()
            if flt:
                res.append((fn, flt, exp))
    return res


if __name__ == "__main__":
    ex = examples()
    print(len(ex))
    for e in ex[:10]:
        print(e)
