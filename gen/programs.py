"""Scope- and arity-aware random generator of jq programs (core language), mostly valid and terminating.

Every random choice comes from the `rng` passed in.  The generator tracks bound variables, labels,
filter arguments and definitions, nests binders, shadows names on purpose, and places calls in tail and
non-tail positions.  Non-termination is avoided by construction (recursive definitions follow
terminating templates; infinite generators occur only under first/limit/label)."""

VAR_NAMES = ["x", "y", "z", "x"]          # repeated on purpose: shadowing
FUN_NAMES = ["f", "g", "h", "f"]
LABELS = ["out", "l", "out"]

CONSTS = ["0", "1", "2", "3", "-1", "null", "true", "false", '"a"', '"b"', "[]", "{}", "[1,2]", '{"a":1}', "1.5",
          '[3,1,2]', '{"a":{"b":2},"c":[1,2,3]}', '"ab"', "10"]

NATIVE0 = ["length", "keys_unsorted", "keys", "not", "tostring", "tojson", "type", "add", "first", "last", "reverse",
           "sort", "to_entries", "floor", "any", "all", "flatten", "unique", "min", "max", "values", "empty",
           "error", "ascii_downcase", "explode", "abs", "..", "recurse", "paths", "transpose", "from_entries",
           "isvalid(.[0])" if False else "length"]

MATH = ["+", "-", "*", "/", "%"]
CMP = ["<", "<=", "==", "!=", ">", ">="]


class Scope:
    def __init__(self, vars=(), labels=(), funs=(), depth=0):
        self.vars = list(vars)
        self.labels = list(labels)
        self.funs = list(funs)      # (name, kinds) kinds: tuple of 'v'/'f'
        self.depth = depth

    def with_var(self, *xs):
        return Scope(self.vars + list(xs), self.labels, self.funs, self.depth)

    def with_label(self, l):
        return Scope(self.vars, self.labels + [l], self.funs, self.depth)

    def with_fun(self, name, kinds):
        return Scope(self.vars, self.labels, self.funs + [(name, kinds)], self.depth)


class Gen:
    def __init__(self, rng, max_depth=5, paths_only=False):
        self.rng = rng
        self.max_depth = max_depth
        self.counter = 0

    def pick(self, xs):
        return self.rng.choice(xs)

    def term(self, sc, d=None, path=False):
        """a filter; `path`: restrict to path expressions"""
        d = self.max_depth if d is None else d
        r = self.rng.random()
        if d <= 0 or r < 0.12:
            return self.atom(sc, path)
        if path:
            return self.path_term(sc, d)
        choices = [
            (10, self.pipe), (8, self.comma), (8, self.bind), (7, self.math), (4, self.cmp), (3, self.logic),
            (5, self.ite), (4, self.trycatch), (4, self.alt), (6, self.array), (5, self.obj), (5, self.fold),
            (7, self.defn), (5, self.call), (4, self.label), (6, self.path_suffix), (4, self.update), (3, self.interp),
            (3, self.native_call), (2, self.neg), (3, self.pattern_bind), (3, self.limit_like),
        ]
        tot = sum(w for w, _ in choices)
        x = self.rng.random() * tot
        for w, f in choices:
            x -= w
            if x <= 0:
                return f(sc, d)
        return self.atom(sc, path)

    # ---- atoms
    def atom(self, sc, path=False):
        opts = ["."] * 3
        if path:
            opts += [".[]?", ".a", ".[0]", '.["b"]', ".[1:]", ".[]", "..", ".a?", ".[-1]", ".[:1]", "empty", ".[]?|.[]?"]
        else:
            opts += CONSTS
            opts += ["$" + v for v in sc.vars[-3:]] * 2
            opts += [".[]?", ".a?", ".[0]?", "..", "length", "empty", "type"]
        for name, kinds in sc.funs[-3:]:
            if len(kinds) == 0:
                opts += [name] * 2
        if sc.labels and not path and self.rng.random() < 0.3:
            opts.append("break $" + sc.labels[-1])
        return self.pick(opts)

    def paren(self, s):
        return "(" + s + ")"

    def sub(self, sc, d, path=False):
        return self.paren(self.term(sc, d - 1, path))

    # ---- binary forms
    def pipe(self, sc, d):
        return "%s | %s" % (self.sub(sc, d), self.term(sc, d - 1))

    def comma(self, sc, d):
        return "%s, %s" % (self.sub(sc, d), self.sub(sc, d))

    def bind(self, sc, d):
        x = self.pick(VAR_NAMES)
        return "%s as $%s | %s" % (self.sub(sc, d), x, self.term(sc.with_var(x), d - 1))

    def pattern(self, sc, d, x, y):
        keyrefs = ['"a"', '"b","a"', '"k"']
        if sc.vars:
            keyrefs += ["$" + sc.vars[-1], "$" + sc.vars[0], '($%s | tostring)' % sc.vars[-1]]
        for name, kinds in sc.funs[-3:]:
            if len(kinds) == 0:
                keyrefs += [name, "(%s | tostring)" % name]
        keyrefs.append("(%s)" % self.term(sc, d - 2))
        k1, k2 = self.pick(keyrefs), self.pick(keyrefs)
        pats = ["[$%s, $%s]" % (x, y), "{a: $%s, b: [$%s]}" % (x, y), "{$%s, c: $%s}" % (x, y), "[[$%s], {a: $%s}]" % (x, y),
                "{(%s): $%s, \"k\": $%s}" % (k1, x, y), "{(%s): $%s}" % (k1, x), "{(%s): [$%s], (%s): $%s}" % (k1, x, k2, y),
                "[{(%s): $%s}, $%s]" % (k1, x, y), "$%s" % x]
        return self.pick(pats)

    def pattern_bind(self, sc, d):
        x, y = self.pick(VAR_NAMES), self.pick(VAR_NAMES)
        if self.rng.random() < 0.6:
            src = self.pick(['[1,[2]]', '{"a":1,"b":[2],"c":3}', '[[1],{"a":2}]', ".", '{"a":[1,2],"b":[3],"k":4,"c":5}', '[{"a":7,"b":8},9]', self.sub(sc, d)])
            return "%s as %s | %s" % (src, self.pattern(sc, d, x, y), self.term(sc.with_var(x, y), d - 1))
        pats = ["[$%s, $%s]" % (x, y), "{a: $%s, b: [$%s]}" % (x, y), "{$%s, c: $%s}" % (x, y), "[[$%s], {a: $%s}]" % (x, y),
                "{(%s): $%s, \"k\": $%s}" % (self.pick(['"a"', '"b","a"', "$" + sc.vars[-1] if sc.vars else '"a"']), x, y)]
        src = self.pick(['[1,[2]]', '{"a":1,"b":[2],"c":3}', '[[1],{"a":2}]', ".", '{"a":[1,2],"b":[3],"k":4,"c":5}', self.sub(sc, d)])
        return "%s as %s | %s" % (src, self.pick(pats), self.term(sc.with_var(x, y), d - 1))

    def math(self, sc, d):
        return "%s %s %s" % (self.sub(sc, d), self.pick(MATH), self.sub(sc, d))

    def cmp(self, sc, d):
        return "%s %s %s" % (self.sub(sc, d), self.pick(CMP), self.sub(sc, d))

    def logic(self, sc, d):
        return "%s %s %s" % (self.sub(sc, d), self.pick(["and", "or"]), self.sub(sc, d))

    def alt(self, sc, d):
        return "%s // %s" % (self.sub(sc, d), self.term(sc, d - 1))

    def neg(self, sc, d):
        return "-" + self.sub(sc, d)

    def ite(self, sc, d):
        r = self.rng.random()
        if r < 0.4:
            return "if %s then %s else %s end" % (self.term(sc, d - 1), self.term(sc, d - 1), self.term(sc, d - 1))
        if r < 0.7:
            return "if %s then %s end" % (self.term(sc, d - 1), self.term(sc, d - 1))
        return "if %s then %s elif %s then %s else %s end" % tuple(self.term(sc, d - 2) for _ in range(5))

    def trycatch(self, sc, d):
        r = self.rng.random()
        body = self.sub(sc, d)
        if r < 0.35:
            return "try %s" % body
        if r < 0.5:
            return body + "?"
        return "try %s catch %s" % (body, self.pick(["7", '"caught"', "[.]|length", ". as $e | 0"]))

    def array(self, sc, d):
        if self.rng.random() < 0.1:
            return "[]"
        return "[%s]" % self.term(sc, d - 1)

    def obj(self, sc, d):
        n = self.pick([1, 1, 2, 3])
        ents = []
        for _ in range(n):
            r = self.rng.random()
            if r < 0.25:
                ents.append("%s: %s" % (self.pick(["a", "b", '"c"', "if", "and"]), self.sub(sc, d)))
            elif r < 0.5:
                ents.append("(%s): %s" % (self.pick(['"a","b"', '"k"', "1", self.term(sc, d - 2)]), self.sub(sc, d)))
            elif r < 0.6 and sc.vars:
                ents.append("$" + sc.vars[-1])
            elif r < 0.7:
                ents.append(self.pick(["a", "b"]))
            elif r < 0.85:
                ents.append('"x\\(%s)": %s' % (self.term(sc, d - 2), self.sub(sc, d)))
            else:
                ents.append('"k": %s' % self.sub(sc, d))
        return "{%s}" % ", ".join(ents)

    def fold(self, sc, d):
        x = self.pick(VAR_NAMES)
        if self.rng.random() < 0.35:
            y = self.pick(VAR_NAMES)
            pat = self.pattern(sc, d, x, y)
            src = self.pick(['({"a":1,"b":2,"k":3}, {"a":[4],"b":5,"k":6})', '([1,[2]], [3,[4]])', ".[]?", '([{"a":7,"b":8},9], [{"a":[1],"b":2},3])'])
            inner = sc.with_var(x, y)
            upd = self.pick(["[., $%s, $%s]" % (x, y), ". + 1", "$" + y, self.term(inner, d - 2)])
            init = self.pick(["0", "null", "[]", "."])
            r = self.rng.random()
            if r < 0.5:
                return "reduce %s as %s (%s; %s)" % (src, pat, init, upd)
            if r < 0.75:
                return "foreach %s as %s (%s; %s)" % (src, pat, init, upd)
            return "foreach %s as %s (%s; %s; %s)" % (src, pat, init, upd, self.pick(["[$%s, .]" % x, "$" + y, self.term(inner, d - 2)]))
        src = self.pick([".[]?", "(1,2,3)", "range(3)", self.sub(sc, d), "empty", '("a","b")'])
        inner = sc.with_var(x)
        upd = self.pick([". + $" + x, "[., $" + x + "]", "., ($" + x + ")", "empty", "if . then $%s else . end" % x, self.term(inner, d - 2), ".+1"])
        init = self.pick(["0", "null", "[]", ".", "(0, 10)", self.term(sc, d - 2)])
        r = self.rng.random()
        if r < 0.45:
            return "reduce %s as $%s (%s; %s)" % (src, x, init, upd)
        if r < 0.75:
            return "foreach %s as $%s (%s; %s)" % (src, x, init, upd)
        return "foreach %s as $%s (%s; %s; %s)" % (src, x, init, upd, self.pick(["[$%s, .]" % x, ".", "empty", "., .", self.term(inner, d - 2)]))

    def label(self, sc, d):
        l = self.pick(LABELS)
        return "label $%s | %s" % (l, self.term(sc.with_label(l), d - 1))

    def interp(self, sc, d):
        fmt = self.pick(["", "", "@json ", "@text "])
        return '%s"a\\(%s)b\\(%s)"' % (fmt, self.term(sc, d - 2), self.term(sc, d - 2))

    def limit_like(self, sc, d):
        n = self.pick(["0", "1", "2", "3", "-1", "1.5"])
        gens = ["repeat(%s)" % self.pick(["1", ".", '"x"']), "range(%s)" % self.pick(["5", "0", "2;7", "0;10;3", "5;0;-2"]),
                "recurse(if . < 3 then .+1 else empty end)", self.sub(sc, d), ".[]?", "(1,2,3,4)", "recurse"]
        g = self.pick(gens)
        form = self.pick(["limit(%s; %s)", "first(%s)" if False else "limit(%s; %s)", "skip(%s; limit(5; %s))", "nth(%s; limit(6; %s))",
                          "[limit(%s; %s)]"])
        s = form % (n, g)
        if self.rng.random() < 0.2:
            return "first(%s)" % g
        if self.rng.random() < 0.1:
            return "isempty(%s)" % g
        if self.rng.random() < 0.1:
            return "[limit(4; %s)] | last" % g
        return s

    def native_call(self, sc, d):
        r = self.rng.random()
        if r < 0.5:
            return self.pick(NATIVE0)
        if r < 0.8:
            f = self.pick(["map", "select", "sort_by", "group_by", "min_by", "max_by", "unique_by", "map_values", "any", "all",
                           "path", "del", "recurse", "with_entries", "walk", "first", "last", "isempty", "add", "paths", "pick"][:20])
            arg = self.term(sc, d - 2, path=f in ("path", "del", "pick"))
            if f == "recurse":
                return "[limit(5; recurse(%s))]" % arg
            if f == "walk":
                return "walk(%s)" % self.pick([".", "if type == \"number\" then .+1 else . end", arg])
            return "%s(%s)" % (f, arg)
        f = self.pick(["has(%s)", "join(%s)", "range(%s)", "getpath(%s)", "setpath(%s; 9)", "delpaths([%s])", "index(%s)", "contains(%s)",
                       "startswith(%s)", "ltrimstr(%s)", "nth(%s)", "indices(%s)", "split(%s)", "flatten(%s)", "combinations(%s)" if False else "has(%s)",
                       "error(%s)", "limit(2; %s)", "inside(%s)", "to_entries | map(select(.value | %s)) | from_entries"])
        return f % self.term(sc, d - 2)

    # ---- definitions and calls
    def defn(self, sc, d):
        name = self.pick(FUN_NAMES)
        r = self.rng.random()
        if r < 0.35:
            kinds = ()
        elif r < 0.6:
            kinds = ("f",)
        elif r < 0.8:
            kinds = ("v",)
        else:
            kinds = tuple(self.pick("vf") for _ in range(2))
        params = []
        inner = sc
        argnames = []
        for i, k in enumerate(kinds):
            if k == "v":
                x = self.pick(VAR_NAMES)
                params.append("$" + x)
                inner = inner.with_var(x)
            else:
                g = self.pick(["a", "b", "f"])
                params.append(g)
                inner = inner.with_fun(g, ())
        sig = name + ("(" + "; ".join(params) + ")" if params else "")
        rr = self.rng.random()
        if rr < 0.3:
            # terminating recursion through a tail position
            inner_rec = inner.with_fun(name, kinds)
            call = self.call_of(inner_rec, name, kinds, d - 2, decreasing=True)
            tmpl = self.pick([
                "if (type == \"number\") and . < 3 then (. + 1 | %s) else . end",
                "if (type == \"number\") and . < 3 then ., (. + 1 | %s) else empty end",
                "if (type == \"array\") and length > 0 then (.[1:] | %s) else \"done\" end",
                "if (type == \"number\") and . < 2 then (. + 1) as $x | ($x | %s) else [.] end",
                "(if type == \"number\" then . else 0 end) as $n | if $n < 3 then ($n + 1 | %s) // 5 else $n end",
                "if (type == \"number\") and . < 3 then 1 + (. + 1 | %s) else 0 end",
                "if (type == \"number\") and . < 3 then try (. + 1 | %s) catch \"c:\\(.)\" else error(\"boom\") end",
                "if (type == \"number\") and . < 2 then (. + 1 | %s)? else error(\"deep\") end",
                "if (type == \"number\") and . < 3 then (label $l | (. + 1 | %s), break $l, 7) else ., error(\"end\") end",
                "if (type == \"number\") and . < 3 then first(. + 1 | %s) else (., 99) end",
                "if (type == \"number\") and . < 3 then (. + 1 | %s) // \"alt\" else false, null end",
                "if (type == \"number\") and . < 3 then foreach (1, 2) as $i (.; . + 1; if $i == 2 then %s else . end) else . end",
                "if (type == \"number\") and . < 3 then [. + 1 | %s] else . end",
                "if (type == \"number\") and . < 3 then def inner: (. + 1 | %s); try inner catch \"i:\\(.)\" else error(\"x\") end",
                "if (type == \"number\") and . < 3 then reduce (. + 1 | %s) as $r (0; . + ($r | tostring | length)) else 10, 20 end",
            ])
            body = tmpl % call
            if self.rng.random() < 0.65:
                outer_call = self.call_of(sc.with_fun(name, kinds), name, kinds, d - 2)
                wrap = self.pick(["(%s | %s)", "[%s | %s]", "try (%s | %s) catch \"outer:\\(.)\"", "first(%s | %s)", "(%s | %s), 5", "[limit(3; %s | %s)]"])
                return "def %s: %s; %s" % (sig, body, wrap % (self.pick(["0", "1", "2", ".", "[1,2,3]"]), outer_call))
        else:
            body = self.term(inner, d - 2)
        rest = self.term(sc.with_fun(name, kinds), d - 1)
        return "def %s: %s; %s" % (sig, body, rest)

    def call_of(self, sc, name, kinds, d, decreasing=False):
        if not kinds:
            return name
        args = []
        for k in kinds:
            if k == "v":
                args.append(self.pick(["1", "2", ".", "(1,2)", "$" + sc.vars[-1] if sc.vars else "0", self.term(sc, d - 1)]))
            else:
                args.append(self.pick([".", ".+1", ".[]?", "1,2", "empty", self.term(sc, d - 1)]))
        return "%s(%s)" % (name, "; ".join(args))

    def call(self, sc, d):
        fs = [f for f in sc.funs]
        if not fs:
            return self.defn(sc, d)
        name, kinds = self.pick(fs[-4:])
        return self.call_of(sc, name, kinds, d)

    # ---- paths and updates
    def path_suffix(self, sc, d, path=False):
        base = self.pick([".", self.sub(sc, d, path), ".", "."])   # in a path expression the base is one, too
        if base == ".":
            base = ""
        n = self.pick([1, 1, 2, 3])
        s = base if base else "."
        first = True
        for _ in range(n):
            r = self.rng.random()
            q = "?" if self.rng.random() < 0.3 else ""
            if r < 0.3:
                part = ("" if (first and not base) else ".") + self.pick(["a", "b", "c"])
                if first and not base:
                    s = "." + part
                else:
                    s += part
            elif r < 0.5:
                s += "[%s]" % self.pick(["0", "1", "-1", '"a"', "1,0", self.term(sc, d - 2), "$" + sc.vars[-1] if sc.vars else "0", "null", "1.0"])
            elif r < 0.7:
                s += "[]"
            else:
                a = self.pick(["", "0", "1", "-1", "1,2", "null", self.term(sc, d - 2)])
                b = self.pick(["", "2", "-1", "1,3", "null"])
                if a == "" and b == "":
                    a = "1"
                s += "[%s:%s]" % (a, b)
            s += q
            first = False
        return s

    def path_term(self, sc, d):
        r = self.rng.random()
        if r < 0.25:
            return self.path_suffix(sc, d, True)
        if r < 0.4:
            return "%s | %s" % (self.sub(sc, d, True), self.term(sc, d - 1, True))
        if r < 0.5:
            return "%s, %s" % (self.sub(sc, d, True), self.sub(sc, d, True))
        if r < 0.58:
            return "if %s then %s else %s end" % (self.term(sc, d - 2), self.term(sc, d - 1, True), self.term(sc, d - 1, True))
        if r < 0.66:
            return "%s // %s" % (self.sub(sc, d, True), self.sub(sc, d, True))
        if r < 0.72:
            x = self.pick(VAR_NAMES)
            return "%s as $%s | %s" % (self.sub(sc, d), x, self.term(sc.with_var(x), d - 1, True))
        if r < 0.78:
            return self.pick(["first(%s)", "last(%s)", "limit(2; %s)", "skip(1; %s)", "select(%s)" if False else "first(%s)"]) % self.term(sc, d - 1, True)
        if r < 0.84:
            return "select(%s)" % self.term(sc, d - 2)
        if r < 0.88:
            return "recurse(%s)" % self.pick([".[]?", ".a?", ".[0]?"])
        if r < 0.92:
            return "getpath(%s)" % self.pick(['["a"]', '["a","b"]', "[0]", '["c",1]', "[]"])
        if r < 0.95:
            x = self.pick(VAR_NAMES)
            return "reduce %s as $%s (.; %s)" % (self.pick(['("a","b")', "(0,1)", "empty"]), x, self.pick([".[$%s]?" % x, ".[$%s]" % x]))
        if r < 0.97:
            name = self.pick(FUN_NAMES)
            return "def %s: %s; %s" % (name, self.term(sc, d - 2, True), self.term(sc.with_fun(name, ()), d - 1, True))
        return "(%s)?" % self.term(sc, d - 1, True)

    def update(self, sc, d):
        p = self.term(sc, d - 1, path=True)
        op = self.pick(["|=", "|=", "=", "+=", "-=", "*=", "/=", "%=", "//="])
        rhs = self.pick([".+1", "empty", "(1,2)", "null", '"v"', "[.]", self.term(sc, d - 2), "1", ".", "(.,.)"])
        return "(%s) %s %s" % (p, op, self.paren(rhs))


INPUTS_SRC = [
    "null", "1", "0", "2", '"ab"', "[]", "{}", "[1,2,3]", '[0,[1,2],{"a":3}]', '{"a":1,"b":[2],"c":3}', '{"a":{"b":2},"c":[1,2,3]}',
    '[[1,2],[3,4]]', '{"a":[1,2],"b":[3],"k":4,"c":5}', "true", "1.5", '[{"a":1,"b":2},{"a":1,"b":1},{"a":0}]', '[3,1,2,1]',
    '["b","a"]', '{"b":{"a":null}}',
]
