"""S-expressions shared by the harness (Rust), the model driver (OCaml) and the checks (Python).

Python representation: atoms are `str`, byte strings are `bytes`, lists are `list`.
"""


def dumps(x) -> str:
    out = []
    _dump(x, out)
    return "".join(out)


def _dump(x, out):
    if isinstance(x, str):
        out.append(x)
    elif isinstance(x, (bytes, bytearray)):
        out.append('"')
        for c in x:
            if c == 10:
                out.append("\\n")
            elif c == 9:
                out.append("\\t")
            elif c == 13:
                out.append("\\r")
            elif c == 92:
                out.append("\\\\")
            elif c == 34:
                out.append('\\"')
            elif 0x20 <= c <= 0x7E:
                out.append(chr(c))
            else:
                out.append("\\x%02x" % c)
        out.append('"')
    elif isinstance(x, int):
        out.append(str(x))
    else:
        out.append("(")
        first = True
        for y in x:
            if not first:
                out.append(" ")
            first = False
            _dump(y, out)
        out.append(")")


def loads(s: str):
    pos = [0]
    r = _parse(s, pos)
    _ws(s, pos)
    if pos[0] != len(s):
        raise ValueError("trailing input in sexp: %r" % s[pos[0]:pos[0] + 20])
    return r


def _ws(s, pos):
    i = pos[0]
    n = len(s)
    while i < n and s[i] in " \t\n\r":
        i += 1
    pos[0] = i


_ESC = {"n": 10, "t": 9, "r": 13, "\\": 92, '"': 34}


def _parse(s, pos):
    _ws(s, pos)
    i = pos[0]
    if i >= len(s):
        raise ValueError("eof")
    c = s[i]
    if c == "(":
        pos[0] = i + 1
        items = []
        while True:
            _ws(s, pos)
            if pos[0] >= len(s):
                raise ValueError("eof in list")
            if s[pos[0]] == ")":
                pos[0] += 1
                return items
            items.append(_parse(s, pos))
    if c == '"':
        i += 1
        b = bytearray()
        while True:
            c = s[i]
            i += 1
            if c == '"':
                pos[0] = i
                return bytes(b)
            if c == "\\":
                d = s[i]
                i += 1
                if d == "x":
                    b.append(int(s[i:i + 2], 16))
                    i += 2
                else:
                    b.append(_ESC[d])
            else:
                b.extend(c.encode("latin-1") if ord(c) < 256 else c.encode("utf-8"))
    j = i
    n = len(s)
    while j < n and s[j] not in ' \t\n\r()"':
        j += 1
    pos[0] = j
    return s[i:j]
