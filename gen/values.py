"""Value generators (S-expression form, representation-preserving)."""
import struct

I = lambda n: ["I", str(n)]
B = lambda n: ["B", str(n)]
D = lambda s: ["D", s.encode()]
S = lambda b: ["S", b if isinstance(b, bytes) else b.encode()]
Y = lambda b: ["Y", b if isinstance(b, bytes) else b.encode()]
A = lambda *xs: ["A"] + list(xs)


def O(*kvs):
    return ["O"] + [[k, v] for k, v in kvs]


def F(x):
    if isinstance(x, str):
        return ["F", x]
    return ["F", struct.pack(">d", x).hex()]


NULL, TRUE, FALSE = "null", "true", "false"
POS_INF = F("7ff0000000000000")
NEG_INF = F("fff0000000000000")
NAN = F("7ff8000000000000")
NEG_ZERO = F("8000000000000000")

ISIZE_MAX = 2 ** 63 - 1
ISIZE_MIN = -2 ** 63

# numbers: every representation and boundary; all NaN-free
NUM_ATOMS = [
    I(0), F(0.0), NEG_ZERO, B(0), D("0.0"), D("-0.0"), D("0e5"),
    I(1), F(1.0), B(1), D("1.0"), D("1e0"), D("10e-1"), D("1.00"),
    I(-1), F(-1.0), B(-1), D("-1.0"),
    I(2), F(2.0), I(3), F(0.5), D("0.5"), F(1.5), F(-0.5), D("1.10"), F(1.1),
    I(2 ** 53), F(float(2 ** 53)), B(2 ** 53), I(2 ** 53 - 1), F(float(2 ** 53 - 1)),
    I(-2 ** 53), F(-float(2 ** 53)),
    I(ISIZE_MAX), I(ISIZE_MIN), B(ISIZE_MAX), B(ISIZE_MIN), B(ISIZE_MAX + 1), B(ISIZE_MIN - 1),
    B(2 ** 64), B(-2 ** 64), B(2 ** 64 - 1), B(10 ** 30), B(-10 ** 30),
    B(10 ** 400), B(-10 ** 400), B(10 ** 400 + 1),
    POS_INF, NEG_INF, D("1e1000"), D("-1e1000"), D("1e-1000"),
    F(5e-324), F(-5e-324), F(1.7976931348623157e308), F(-1.7976931348623157e308),
    F(1e300), D("1e300"), F(255.0), I(255), I(256), I(65), I(127), I(128),
]

# integers only "safe" beyond 2^53 when compared with integers / infinities: (property C08's domain)
def is_big_int_atom(v):
    return v[0] in ("I", "B") and abs(int(v[1])) > 2 ** 53


def is_float_like(v):
    return v[0] in ("F", "D")


def is_inf_atom(v):
    if v[0] == "F":
        return v[1] in ("7ff0000000000000", "fff0000000000000")
    if v[0] == "D":
        try:
            f = float(v[1].decode())
        except Exception:
            return False
        return f in (float("inf"), float("-inf"))
    return False


STR_ATOMS = [
    S(""), S("a"), Y("a"), S("b"), S("ab"), Y("ab"), S("A"), S("a\x00"), S(b"\xc3\xa9"), Y(b"\xc3\xa9"),
    S(b"\xff"), Y(b"\xff"), S(b"a\xffb"), S("€"), S("\U0001F600"), S("0"), S("1"), S("true"), S("null"),
    Y(""), S(" "), S("start"), S("end"), S("key"), S("value"),
]

OTHER_ATOMS = [NULL, TRUE, FALSE]

EMPTY = [A(), O()]


def atoms():
    return OTHER_ATOMS + NUM_ATOMS + STR_ATOMS + EMPTY


def small_trees(rng, n, depth=2):
    """n random small trees over the atom pool (arrays, objects with 0-3 entries)."""
    pool = atoms()
    out = []
    for _ in range(n):
        out.append(dedupe_keys(tree(rng, pool, depth)))
    return out


def tree(rng, pool, depth):
    r = rng.random()
    if depth == 0 or r < 0.45:
        return rng.choice(pool)
    if r < 0.72:
        k = rng.choice([0, 1, 1, 2, 2, 3])
        return A(*[tree(rng, pool, depth - 1) for _ in range(k)])
    k = rng.choice([0, 1, 2, 2, 3])
    kvs = []
    for _ in range(k):
        key = tree(rng, pool, depth - 1) if rng.random() < 0.3 else rng.choice(STR_ATOMS + NUM_ATOMS[:12])
        kvs.append((key, tree(rng, pool, depth - 1)))
    return O(*kvs)


def contains_nan(v):
    if isinstance(v, list):
        if v and v[0] == "F":
            bits = int(v[1], 16)
            return ((bits >> 52) & 0x7FF) == 0x7FF and (bits & ((1 << 52) - 1)) != 0
        if v and v[0] == "D":
            return False
        return any(contains_nan(x) for x in v[1:])
    return False


def leaves(v):
    if isinstance(v, list) and v and v[0] in ("A",):
        for x in v[1:]:
            yield from leaves(x)
    elif isinstance(v, list) and v and v[0] == "O":
        for kv in v[1:]:
            yield from leaves(kv[0])
            yield from leaves(kv[1])
    else:
        yield v


def from_json(x):
    """Python JSON value -> sexp value (integers as machine integers when they fit)."""
    if x is None:
        return NULL
    if x is True:
        return TRUE
    if x is False:
        return FALSE
    if isinstance(x, int):
        return I(x) if ISIZE_MIN <= x <= ISIZE_MAX else B(x)
    if isinstance(x, float):
        return F(x)
    if isinstance(x, str):
        return S(x.encode("utf-8"))
    if isinstance(x, list):
        return A(*[from_json(y) for y in x])
    if isinstance(x, dict):
        return O(*[(S(k.encode("utf-8")), from_json(v)) for k, v in x.items()])
    raise ValueError(x)


def variant(rng, v, depth=3):
    """a value that is `==` to v but (where possible) represented differently: other number representation,
    other sign of zero, byte vs text string, permuted object entries; recursively"""
    if not isinstance(v, list) or not v:
        return v
    t = v[0]
    if t in ("I", "B"):
        z = int(v[1])
        opts = [["B", str(z)]]
        if ISIZE_MIN <= z <= ISIZE_MAX:
            opts.append(["I", str(z)])
        if abs(z) <= 2 ** 53:
            opts.append(F(float(z)))
            opts.append(D("%d.0" % z))
            opts.append(D("%de0" % z))
            if z == 0:
                opts += [NEG_ZERO, D("-0.0")]
        return rng.choice(opts)
    if t == "F":
        bits = int(v[1], 16)
        if bits in (0, 1 << 63):
            return rng.choice([F(0.0), NEG_ZERO, I(0), B(0), D("0.00")])
        f = struct.unpack(">d", bytes.fromhex(v[1]))[0]
        if f in (float("inf"), float("-inf")):
            return rng.choice([v, D("1e999" if f > 0 else "-1e999")])
        if f != f:
            return v
        if f == int(f) and abs(f) <= 2 ** 53:
            return rng.choice([I(int(f)), B(int(f)), v, D(repr(f))])
        return rng.choice([v, D(repr(f))])
    if t == "D":
        return v
    if t == "S":
        return rng.choice([v, ["Y", v[1]]])
    if t == "Y":
        return rng.choice([v, ["S", v[1]]])
    if t == "A":
        return ["A"] + [variant(rng, x, depth - 1) for x in v[1:]]
    if t == "O":
        ents = [[variant(rng, kv[0], depth - 1), variant(rng, kv[1], depth - 1)] for kv in v[1:]]
        rng.shuffle(ents)
        return ["O"] + ents
    return v


def canon(v):
    """Python-side canonical form: equal under jq's == (on the NaN-free, exactly-representable domain) iff same canon"""
    from fractions import Fraction
    if not isinstance(v, list):
        return v
    t = v[0]
    if t in ("I", "B"):
        return ("n", Fraction(int(v[1])))
    if t == "F":
        f = struct.unpack(">d", bytes.fromhex(v[1]))[0]
        if f != f:
            return ("nan",)
        if f in (float("inf"), float("-inf")):
            return ("inf", f > 0)
        return ("n", Fraction(f))
    if t == "D":
        try:
            f = float(v[1].decode())
        except Exception:
            return ("nan",)
        if f in (float("inf"), float("-inf")):
            return ("inf", f > 0)
        return ("n", Fraction(f))
    if t in ("S", "Y"):
        return ("s", v[1])
    if t == "A":
        return ("a",) + tuple(canon(x) for x in v[1:])
    if t == "O":
        return ("o", frozenset((canon(kv[0]), canon(kv[1])) for kv in v[1:]))
    return v


def dedupe_keys(v):
    """drop object entries whose key is == to an earlier key (recursively)"""
    if not isinstance(v, list) or not v:
        return v
    if v[0] == "A":
        return ["A"] + [dedupe_keys(x) for x in v[1:]]
    if v[0] == "O":
        seen = set()
        out = ["O"]
        for kv in v[1:]:
            k = dedupe_keys(kv[0])
            c = canon(k)
            if c in seen:
                continue
            seen.add(c)
            out.append([k, dedupe_keys(kv[1])])
        return out
    return v
