"""C14: every supported data format round-trips values on its documented domain."""
import csv
import io
import itertools
import json
import os
import subprocess
import core
import jq
import cli
import sx
from values import *
from values import from_json

RULE = ("per format the generator of its domain: YAML (all values; strings from reserved words, indicators, number-like spellings, "
        "document markers, leading/trailing blanks, multi-line, non-string keys, byte strings, special floats), CBOR (all values), TOML "
        "(objects with string keys without null/bytes/huge integers), CSV (rows of scalars), TSV (rows of non-empty strings not "
        "spelling numbers/booleans), XML (documents: fromxml|toxml|fromxml == fromxml); values just outside each domain must be "
        "rejected; independent readers (Python tomllib, csv, json, xml.dom.minidom); --to/--from on the command line against the "
        "filters; non-trivial = distinct document")
ASSUMPTIONS = ["Python tomllib / csv / xml.dom.minidom as independent readers of what jaq writes",
               "third-party scanners (saphyr, toml-span, xmlparser, ciborium) are modelled by contract"]
PARTIAL = ["document-level YAML/TOML/XML structure is checked by round trip and independent readers, not proved; proved: YAML plain "
           "scalars that are written unquoted are read back as the same string"]

YAML_STRS = ["", "a", "null", "Null", "NULL", "~", "true", "True", "TRUE", "false", "yes", "no", "on", "off", "On", "NO", ".inf", "-.inf", "+.inf", ".Inf", ".nan", ".NaN", "+.nan",
             "1", "-1", "+1", "1.5", ".5", "-.5", "+.5", "1e3", "1E3", "0x1F", "+0x1F", "-0x1f", "0o17", "0b101", "007", "1_000", "1.", "1.e3", "-", "+", ".", "..", "...", "---", "--- a", "- a",
             "a: b", "a:b", "a :b", "a #b", "a# b", "#a", "[a]", "{a}", "a,b", "a]", "&a", "*a", "!a", "|a", ">a", "'a'", "\"a\"", "%a", "@a", "`a", "?a", "? a", ":a", ": a", " a", "a ", "\ta", "a\t",
             "a  b", "a\nb", "a\rb", "a\n", "\n", "a\\b", "a\"b", "é", " ", "\u0085", "a\u0000b", "\x7f", "null ", " null", "true ", "1 ", "-.inf ", "0", "-0", "00", "0.0", "1e", "e1", "1e+5", "1e-5",
             "2001-01-01", "12:30", "<<", "=", "!!str a", "a: ", "a:", "- ", "-a", "-1a", "+a", ".a", ".1a", "1a", "0x", "0xg", "0b2", "0o8", "inf", "nan", "Infinity", "NaN", "-Infinity",
             "n", "y", "N", "Y", "~a", "a~", "null~", "nul", "TRUE ", "﻿a"]


RFC8949_A = ["00", "01", "0a", "17", "1818", "1819", "1864", "1903e8", "1a000f4240", "1b000000e8d4a51000", "1bffffffffffffffff", "c249010000000000000000",
             "3bffffffffffffffff", "c349010000000000000000", "20", "29", "3863", "3903e7", "f90000", "f98000", "f93c00", "fb3ff199999999999a", "f93e00", "f97bff",
             "fa47c35000", "fa7f7fffff", "fb7e37e43c8800759c", "f90001", "f90400", "f9c400", "fbc010666666666666", "f97c00", "f97e00", "f9fc00", "fa7f800000",
             "fa7fc00000", "faff800000", "fb7ff0000000000000", "fb7ff8000000000000", "fbfff0000000000000", "f4", "f5", "f6", "f7", "f0", "f8ff", "f814", "f816",
             "c074323031332d30332d32315432303a30343a30305a", "c11a514b67b0", "d74401020304", "40", "4401020304", "60", "6161", "6449455446", "62225c", "62c3bc", "63e6b0b4",
             "64f0908591", "80", "83010203", "8301820203820405", "98190102030405060708090a0b0c0d0e0f101112131415161718181819", "a0", "a201020304", "a26161016162820203",
             "826161a161626163", "a56161614161626142616361436164614461656145", "5f42010243030405ff", "7f657374726561646d696e67ff", "9fff", "9f018202039f0405ffff",
             "9f01820203820405ff", "83018202039f0405ff", "83019f0203ff820405", "9f0102030405060708090a0b0c0d0e0f101112131415161718181819ff", "bf61610161629f0203ffff",
             "826161bf61626163ff", "bf6346756ef563416d7421ff",
             # beyond the appendix: short floats (subnormal, non-exact), tags with wrong content, breaks out of place, truncated items, duplicate keys, invalid text
             "f903ff", "f97c01", "f97e01", "fa00000001", "fa007fffff", "fa7f800001", "fa7fc00001", "fa3f800000", "fb3ff0000000000000", "fb7ff0000000000001", "f98001", "fa80000000",
             "c240", "c24100", "c2420001", "c243010000", "c340", "c34100", "c25f4101ff", "c201", "c2", "c3f6", "c46101", "ff", "81ff", "a1ff", "a101ff", "bf01ff", "bf0102", "9f01",
             "18", "19ff", "1a000000", "1b00", "5a", "6261", "42", "1c", "3d", "5e", "7c", "9d", "be", "dc", "fc", "fd", "fe", "61ff", "62c328", "63e282", "61c3", "62c3bcff",
             "a2010201" + "03", "a3616101616102616203", "a2f6f5f4f6", "a18001", "a1a00001", "8000", "000102", "00ff", "0018", "f6f6f6", "1b7fffffffffffffff", "1b8000000000000000",
             "3b7fffffffffffffff", "3b8000000000000000", "c2487fffffffffffffff", "c2488000000000000000", "c348ffffffffffffffff", "c249000000000000000001",
             "9a00000001f6", "9b0000000000000001f6", "9bffffffffffffffff", "bb0000000000000001f6f5", "5b0000000000000001ff", "7b000000000000000161", "7bffffffffffffffff61",
             "98", "9801", "b801", "d8", "d802", "d8024101", "d9000241ff", "f818", "f8", "e0", "f3", "f7"]


def cbor_enc(rng, v, loose):
    """a Python CBOR encoder for generated inputs of the reader ([loose]: also longer-than-needed widths, indefinite lengths)"""
    import struct
    def head(major, n):
        forms = []
        if n <= 23:
            forms.append(bytes([major * 32 + n]))
        if n <= 0xff:
            forms.append(bytes([major * 32 + 24, n]))
        if n <= 0xffff:
            forms.append(bytes([major * 32 + 25]) + n.to_bytes(2, "big"))
        if n <= 0xffffffff:
            forms.append(bytes([major * 32 + 26]) + n.to_bytes(4, "big"))
        forms.append(bytes([major * 32 + 27]) + n.to_bytes(8, "big"))
        return rng.choice(forms) if loose and rng.random() < 0.3 else forms[0]
    def go(v):
        if v is None:
            return b"\xf6"
        if v is True:
            return b"\xf5"
        if v is False:
            return b"\xf4"
        if isinstance(v, int):
            if 0 <= v < 2 ** 64:
                return head(0, v)
            if -2 ** 64 <= v < 0:
                return head(1, -1 - v)
            u = v if v >= 0 else -1 - v
            b = u.to_bytes((u.bit_length() + 7) // 8 or 1, "big")
            return bytes([0xc2 if v >= 0 else 0xc3]) + head(2, len(b)) + b
        if isinstance(v, float):
            r = rng.random()
            if loose and r < 0.3:
                try:
                    return b"\xf9" + struct.pack(">e", v)
                except (OverflowError, struct.error):
                    pass
            if loose and r < 0.6:
                try:
                    return b"\xfa" + struct.pack(">f", v)
                except (OverflowError, struct.error):
                    pass
            return b"\xfb" + struct.pack(">d", v)
        if isinstance(v, bytes):
            return head(2, len(v)) + v
        if isinstance(v, str):
            b = v.encode("utf-8")
            return head(3, len(b)) + b
        if isinstance(v, list):
            if loose and rng.random() < 0.3:
                return b"\x9f" + b"".join(go(x) for x in v) + b"\xff"
            return head(4, len(v)) + b"".join(go(x) for x in v)
        if isinstance(v, dict):
            items = b"".join(go(k) + go(x) for k, x in v.items())
            if loose and rng.random() < 0.3:
                return b"\xbf" + items + b"\xff"
            return head(5, len(v)) + items
        raise ValueError(v)
    return go(v)


def cbor_py_value(rng, depth):
    r = rng.random()
    if depth == 0 or r < 0.45:
        return rng.choice([None, True, False, 0, 1, 23, 24, 255, 256, 65535, 65536, 2 ** 32 - 1, 2 ** 32, 2 ** 63 - 1, 2 ** 63, 2 ** 64 - 1, 2 ** 64, -1, -24, -25, -256, -257,
                           -2 ** 63, -2 ** 63 - 1, -2 ** 64, -2 ** 64 - 1, 10 ** 30, -10 ** 30, 0.0, -0.0, 1.0, 1.5, -2.5, 65504.0, 65505.0, 5.960464477539063e-08, 6.103515625e-05,
                           3.4028234663852886e+38, 1e39, 1.401298464324817e-45, 1e-46, 0.1, 1e300, 5e-324, float("inf"), float("-inf"), float("nan"), 100000.0, 0.00006103515625 / 3,
                           b"", b"a", b"\x00\xff", "", "a", "é", "\U0001f600", "a" * 24, "b" * 256])
    if r < 0.75:
        return [cbor_py_value(rng, depth - 1) for _ in range(rng.randint(0, 4))]
    keys = [1, "a", "b", True, None, -1, 2 ** 64, "é", b"k", 1.5]
    return {rng.choice(keys): cbor_py_value(rng, depth - 1) for _ in range(rng.randint(0, 3))}


def cbor_docs(rng, tier):
    docs = [bytes.fromhex(h) for h in RFC8949_A]
    n = 300 if tier == "quick" else 6000
    for _ in range(n):
        d = b"".join(cbor_enc(rng, cbor_py_value(rng, rng.choice([0, 1, 2, 3])), loose=rng.random() < 0.7) for _ in range(rng.choice([1, 1, 1, 2, 3])))
        docs.append(d)
        if d and rng.random() < 0.6:
            b = bytearray(d)
            for _ in range(rng.choice([1, 1, 2])):
                r = rng.random()
                i = rng.randrange(len(b)) if b else 0
                if r < 0.35 and b:
                    b[i] = rng.choice([0x00, 0x17, 0x18, 0x1b, 0x1c, 0x1f, 0x40, 0x5f, 0x60, 0x7f, 0x80, 0x9f, 0xa0, 0xbf, 0xc2, 0xc3, 0xc4, 0xf4, 0xf6, 0xf7, 0xf8, 0xf9, 0xfa, 0xfb, 0xff, rng.randrange(256)])
                elif r < 0.55 and b:
                    del b[i]
                elif r < 0.75:
                    b.insert(i, rng.randrange(256))
                else:
                    b = b[:i]
            docs.append(bytes(b))
    return docs


def yaml_values(rng, tier):
    vals = [S(s.encode("utf-8")) for s in YAML_STRS]
    vals += [S(b"\xff"), S(b"a\xffb"), Y(b""), Y(b"\x00\xff"), Y(b"abc"), NULL, TRUE, FALSE, I(0), I(-5), B(10 ** 30), B(-10 ** 30), F(1.5), F(-0.0), F(1e300), F(5e-324), POS_INF, NEG_INF, NAN,
             D("1.10"), D("1e1000"), A(), O(), A(A()), O((S("a"), O())), A(I(1), A(I(2), A())), O((S("k"), A(O(), A())))]
    base = [S(s.encode("utf-8")) for s in rng.sample(YAML_STRS, 30)] + [NULL, TRUE, I(1), F(0.5), Y(b"b"), A(), O()]
    for _ in range(150 if tier == "quick" else 3000):
        vals.append(dedupe_keys(tree(rng, base, rng.choice([1, 2, 3]))))
    # strings as keys and nested
    for s in rng.sample(YAML_STRS, 60 if tier == "quick" else len(YAML_STRS)):
        vals.append(O((S(s.encode()), S(s.encode()))))
        vals.append(A(S(s.encode()), O((S("k"), A(S(s.encode()))))))
    vals += [O((I(1), S("int key")), (NULL, S("null key")), (A(I(1)), S("arr key")), (O((S("a"), I(1))), S("obj key")), (TRUE, I(1)), (F(1.5), I(2)))]
    return vals


def toml_values(rng, tier):
    def t(depth):
        r = rng.random()
        if depth == 0 or r < 0.4:
            return rng.choice([1, -1, 0, 2 ** 62, 1.5, -0.5, 1e300, True, False, "", "a", "a\"b", "a\\b", "a\nb", "é", "\u0000x", "'", "#", "[x]", "a.b", "1", "true"])
        if r < 0.6:
            return [t(depth - 1) for _ in range(rng.randint(0, 3))]
        if r < 0.7:
            return [{"k": t(depth - 1)} for _ in range(rng.randint(1, 3))]
        return {rng.choice(["a", "b", "k-1", "k_2", "", " ", "a.b", "é", "\"q\"", "a b", "1", "#", "true", "k\n"]): t(depth - 1) for _ in range(rng.randint(0, 3))}
    out = [{}, {"": 1}, {"a": {}}, {"a": []}, {"a": [{}]}, {"a": [[], [1]]}, {"a": [{"b": 1}, {"b": 2}]}, {"a": {"b": {"c": 1}}, "z": 0}, {"a": [1, {"b": 2}]}, {"x": float("inf")}, {"x": float("-inf")}]
    for _ in range(200 if tier == "quick" else 3000):
        v = t(3)
        out.append(v if isinstance(v, dict) else {"root": v})
    return out


def gen(ctx):
    rng, tier = ctx["rng"], ctx["tier"]
    cases = []
    for v in yaml_values(rng, tier):
        cases.append(dict(filter="[(toyaml | fromyaml), toyaml, ([.] | toyaml | fromyaml | .[0]), ({\"k\": .} | toyaml | fromyaml | .k)]", inputs=[v], kind="yaml"))
        cases.append(dict(filter="[(tocbor | fromcbor), ([., .] | tocbor | fromcbor | .[1])]", inputs=[v], kind="cbor"))
    for v in toml_values(rng, tier):
        cases.append(dict(filter="[(totoml | fromtoml), totoml]", inputs=[from_json(v)], kind="toml", py=v))
    # sizes around the length encodings and pre-allocation bounds of the formats
    sizes = [0, 1, 23, 24, 25, 255, 256, 257, 1023, 1024, 1025, 1500, 3000] + ([65535, 65536, 70000] if tier != "quick" else [65536])
    for n in sizes:
        mk = ["[range($n)]", "(\"a\" * $n) // \"\"", "((\"a\" * $n) // \"\" | tobytes)", "([range($n) | {key: tostring, value: .}] | from_entries)",
              "[[range($n)], {a: [range($n)], b: [[range($n)]]}]", "[range($n) | [.]]", "({k: [range($n) | tostring]})"]
        for m in mk:
            cases.append(dict(filter="[%s | ((tocbor | fromcbor) == .), ((toyaml | fromyaml) == .)]" % m, vars=[("n", I(n))], inputs=["null"], kind="sizes", n=n, mk=m))
        cases.append(dict(filter="[({a: [range($n)], b: {c: [range($n) | {d: .}]}} | (totoml | fromtoml) == .), ([range($n)] | select(length > 0) | [tocsv | fromcsv] == [.]), ([range($n) | \"s\\(.)\"] | select(length > 0) | [totsv | fromtsv] == [.])]",
                          vars=[("n", I(n))], inputs=["null"], kind="sizes", n=n, mk="toml/csv/tsv"))
    # model correspondence: the writer alone, the resolution of plain scalars alone, the tabular reader on raw text
    for v in yaml_values(rng, tier):
        cases.append(dict(filter="toyaml", inputs=[v], kind="yaml-write"))
        cases.append(dict(filter="tocbor", inputs=[v], kind="cbor-write"))
    for z in [0, 23, 24, 255, 256, 65535, 65536, 2 ** 32 - 1, 2 ** 32, 2 ** 63 - 1, -1, -24, -25, -256, -257, -65536, -65537, -2 ** 32, -2 ** 32 - 1, -2 ** 63]:
        cases.append(dict(filter="tocbor", inputs=[I(z)], kind="cbor-write"))
    for z in [2 ** 63, 2 ** 64 - 1, 2 ** 64, 2 ** 64 + 1, -2 ** 63 - 1, -2 ** 64, -2 ** 64 - 1, 256 ** 23, 256 ** 24 - 1, 256 ** 24, 256 ** 255, 256 ** 256, -256 ** 24, -256 ** 24 - 1, 0, 5, -5]:
        cases.append(dict(filter="tocbor", inputs=[B(z)], kind="cbor-write"))
    for f in [0.0, -0.0, 1.0, 1.5, 65504.0, 65505.0, 65520.0, 5.960464477539063e-08, 2.9802322387695312e-08, 6.103515625e-05, 6.097555160522461e-05, 3.4028234663852886e+38, 3.402823466385289e+38,
              1e39, 1.401298464324817e-45, 7.006492321624085e-46, 1.1754943508222875e-38, 1.1754942106924411e-38, 0.1, 1e300, 5e-324, 2.2250738585072014e-308, 100000.0, 16777216.0, 16777217.0, -2.5, 0.333251953125]:
        cases.append(dict(filter="tocbor", inputs=[F(f)], kind="cbor-write"))
    cases += [dict(filter="tocbor", inputs=[x], kind="cbor-write") for x in (POS_INF, NEG_INF, NAN, D("1.10"), D("1e1000"), D("-0.0"), D("0.5"), D("65504"), D("1e-7"))]
    for d in cbor_docs(rng, tier):
        cases.append(dict(filter="fromcbor", inputs=[Y(d)], kind="cbor-read"))
    alpha = ["a", "b", "1", "0", "-", "+", ".", "e", "x", "o", "_", " ", ":", "#", "~", "n", "u", "l", "N", "f", "i", "E", "9", "\t", ",", "?", "!"]
    docs = list(YAML_STRS)
    for _ in range(300 if tier == "quick" else 6000):
        docs.append("".join(rng.choice(alpha) for _ in range(rng.randint(1, 6))))
    for w in ["0x1F", "0x+1F", "0x-1", "-0x-1", "0b101", "0o17", "0o8", "0b", "0x", "12345678901234567890", "-9223372036854775808", "9223372036854775808", "0xFFFFFFFFFFFFFFFFFF", "1.5e3", "-1.E3", "+.5e-2",
              ".e1", "1e", "1e+", "01", "0", "00", "-0", "0.", "0.0", "+0", "-", "1..2", ".inf", "-.Inf", "+.INF", ".iNf", "-.nan", ".NaN", "1_0", "0x1_F", "1e1_0", "1 2", "0x1g", "0XFF", "0B1", "1E5", "0e0", "0.5E+05"]:
        docs.append(w)
    for d in docs:
        cases.append(dict(filter="[fromyaml]", inputs=[S(d.encode())], kind="yaml-resolve"))
    talpha = ["a", "1", ",", "\"", "\n", "\r", "\t", "\\", "n", "t", "0", "true", " ", "é", "\r\n", "\"\"", "r"]
    for _ in range(300 if tier == "quick" else 6000):
        t = "".join(rng.choice(talpha) for _ in range(rng.randint(0, 10)))
        cases.append(dict(filter="[fromcsv]", inputs=[S(t.encode())], kind="csv-read"))
        cases.append(dict(filter="[fromtsv]", inputs=[S(t.encode())], kind="tsv-read"))
    # outside TOML's domain
    for v in [NULL, I(1), S("a"), A(), O((S("a"), NULL)), O((I(1), I(2))), O((S("a"), Y(b"x"))), O((S("a"), A(NULL))), O((S("a"), B(2 ** 64))), O((S("a"), B(-2 ** 63 - 1))), O((NULL, I(1)))]:
        cases.append(dict(filter="[(try (totoml | fromtoml) catch \"REJECTED\")]", inputs=[v], kind="toml-outside"))
    # CSV / TSV rows
    scal = [NULL, TRUE, FALSE, I(1), I(-7), F(1.5), B(10 ** 20), S(""), S("a"), S("a,b"), S("a\"b"), S("a\nb"), S("a\r\nb"), S(" a "), S("1"), S("true"), S("null"), S("é"), S("\""), S(","), S("a\tb"), S("\\n"), S("\\")]
    for _ in range(200 if tier == "quick" else 3000):
        row = [rng.choice(scal) for _ in range(rng.randint(0, 5))]
        cases.append(dict(filter="[[tocsv | fromcsv], tocsv, @csv]", inputs=[["A"] + row], kind="csv", row=row))
        trow = [rng.choice([S("a"), S("a b"), S("x\ty"), S("l1\nl2"), S("b\\s"), S("é"), S("-"), S("a,b"), S("\""), S("\\n"), S("\rz"), S("nul\u0000"), S("1a"), S("t"), S("0x")]) for _ in range(rng.randint(1, 5))]
        cases.append(dict(filter="[[totsv | fromtsv], totsv, @tsv]", inputs=[["A"] + trow], kind="tsv", row=trow))
    for v in [S("a"), I(1), NULL, O(), A(A()), A(O()), A(Y(b"x")), A(A(I(1)))]:
        cases.append(dict(filter="[(try tocsv catch \"REJECTED\"), (try totsv catch \"REJECTED\")]", inputs=[v], kind="tab-outside"))
    # XML documents
    xmls = ["<a/>", "<a></a>", "<a>text</a>", "<a b=\"1\" c='2'>t<d/>u</a>", "<?xml version=\"1.0\"?><a/>", "<!DOCTYPE a><a/>", "<a><!-- c --><b>x</b></a>", "<a>&lt;&amp;&gt;&quot;&apos;</a>",
            "<a><![CDATA[<x>&]]></a>", "  <a/>  \n", "<a xmlns:p=\"u\"><p:b p:c=\"d\"/></a>", "<a> <b/> </a>", "<a>é€😀</a>", "<a b=\"x&amp;y\"/>", "<a><?pi data?></a>", "<a>&#65;&#x42;</a>",
            "<a b=\"&lt;\">&#10;</a>", "<r><i>1</i><i>2</i><i/></r>", "<a\n b = \"1\"\n/>", "<a>]]&gt;</a>", "<a b=\"'\" c='\"'/>"]
    for x in xmls:
        cases.append(dict(filter="[[fromxml] as $d | ([$d[] | toxml] | map(fromxml)) == $d, ([$d[] | toxml])]", inputs=[S(x.encode())], kind="xml", x=x))
    for x in ["<a>", "<a></b>", "a", "<a b=1/>", "</a>", "<a>1</a><b>2</b>", "<a><b></a></b>", "<", "<a/><", "&"]:
        cases.append(dict(filter="[(try ([fromxml] | length) catch \"REJECTED\")]", inputs=[S(x.encode())], kind="xml-bad", x=x))
    return cases


def ceq(v):
    """canonical form under jaq's == (objects unordered, numbers by value), text and byte strings kept apart"""
    if isinstance(v, list) and v:
        if v[0] in ("S", "Y"):
            return (v[0], v[1])
        if v[0] == "A":
            return ("a",) + tuple(ceq(x) for x in v[1:])
        if v[0] == "O":
            return ("o", frozenset((ceq(k), ceq(x)) for k, x in v[1:]))
    return canon(v)


def eq_mod_repr(a, b, dec_by_value=True):
    return ceq(a) == ceq(b)


def norm_yaml(v):
    """what a YAML round trip may legitimately change: floats come back as decimal literals (same value), big-int/int representation"""
    if isinstance(v, list) and v:
        if v[0] == "B":
            z = int(v[1])
            return I(z) if ISIZE_MIN <= z <= ISIZE_MAX else v
        if v[0] == "A":
            return ["A"] + [norm_yaml(x) for x in v[1:]]
        if v[0] == "O":
            return ["O"] + [[norm_yaml(k), norm_yaml(x)] for k, x in v[1:]]
    return v


def has_invalid_utf8(v):
    if isinstance(v, list) and v:
        if v[0] == "S":
            try:
                v[1].decode("utf-8")
                return False
            except UnicodeDecodeError:
                return True
        if v[0] in ("A",):
            return any(has_invalid_utf8(x) for x in v[1:])
        if v[0] == "O":
            return any(has_invalid_utf8(k) or has_invalid_utf8(x) for k, x in v[1:])
    return False


def oracle(c, impl, model=None):
    if isinstance(impl, list) and impl and impl[0] in ("panic", "crash"):
        return ("panic:" + c["kind"], "format code panicked on %s: %s" % (sx.dumps(c["inputs"][0])[:120], sx.dumps(impl)[:150]))
    if not (isinstance(impl, list) and impl and impl[0] == "out"):
        return None
    k = c["kind"]
    v = c["inputs"][0]
    ok = impl[2] == "end" and len(impl[1]) == 1
    if k == "sizes":
        if not ok:
            return ("sizes-error", "round trip of %s with n=%d fails: %s" % (c["mk"], c["n"], sx.dumps(impl)[:200]))
        if any(x != "true" for x in impl[1][0][1:]):
            return ("sizes-roundtrip", "%s with n=%d does not round-trip: %s (cbor, yaml | toml, csv, tsv)" % (c["mk"], c["n"], sx.dumps(impl[1][0])[:80]))
        return None
    if k == "yaml":
        if has_invalid_utf8(v):
            return None
        if not ok:
            return ("yaml-error", "toyaml | fromyaml fails on %s: %s" % (sx.dumps(v)[:120], sx.dumps(impl)[:200]))
        out = impl[1][0][1:]
        want = norm_yaml(v)
        for i in (0, 2, 3):
            if not eq_mod_repr(want, norm_yaml(out[i]), dec_by_value=True):
                return ("yaml-roundtrip", "toyaml | fromyaml changes %s into %s (document %s)" % (sx.dumps(v)[:150], sx.dumps(out[i])[:150], sx.dumps(out[1])[:150]))
    if k == "cbor":
        if has_invalid_utf8(v):
            return None
        if not ok:
            return ("cbor-error", "tocbor | fromcbor fails on %s: %s" % (sx.dumps(v)[:120], sx.dumps(impl)[:200]))
        out = impl[1][0][1:]
        for i in (0, 1):
            if not eq_mod_repr(norm_yaml(v), norm_yaml(out[i]), dec_by_value=True):
                return ("cbor-roundtrip", "tocbor | fromcbor changes %s into %s" % (sx.dumps(v)[:150], sx.dumps(out[i])[:150]))
    if k == "toml":
        if not ok:
            return ("toml-error", "totoml | fromtoml fails inside TOML's domain on %r: %s" % (c["py"], sx.dumps(impl)[:200]))
        out = impl[1][0][1:]
        if not eq_mod_repr(v, out[0], dec_by_value=True):
            return ("toml-roundtrip", "totoml | fromtoml changes %r into %s (document %s)" % (c["py"], sx.dumps(out[0])[:150], sx.dumps(out[1])[:200]))
        try:
            import tomllib
            doc = out[1][1].decode("utf-8")
            got = tomllib.loads(doc)
            if not py_equal(got, c["py"]):
                return ("toml-independent", "an independent TOML reader reads %r as %r, original %r" % (doc[:150], got, c["py"]))
        except Exception as e:
            if "\x00" not in json.dumps(c["py"]):
                return ("toml-wellformed", "what jaq writes is not TOML for an independent reader (%s): %r" % (e, out[1][1][:200]))
    if k == "toml-outside" and ok and impl[1][0][1] != ["S", b"REJECTED"] and not eq_mod_repr(v, impl[1][0][1]):
        return ("toml-outside", "value outside TOML's domain is neither rejected nor kept: %s -> %s" % (sx.dumps(v), sx.dumps(impl[1][0][1])[:120]))
    if k == "csv":
        row = c["row"]
        if not ok:
            return ("csv-error", "tocsv | fromcsv fails on %s: %s" % (sx.dumps(v)[:120], sx.dumps(impl)[:200]))
        out = impl[1][0][1:]
        if row and row != [NULL] and not (len(row) == 1 and row[0] == S("")):
            want = ["A", ["A"] + [csv_expect(x) for x in row]]
            if not eq_mod_repr(out[0], want):
                return ("csv-roundtrip", "tocsv | fromcsv changes %s into %s (line %s)" % (sx.dumps(v)[:150], sx.dumps(out[0])[:150], sx.dumps(out[1])[:100]))
        if out[1] != out[2]:
            return ("csv-format", "@csv differs from tocsv")
        try:
            rows = list(csv.reader(io.StringIO(out[1][1].decode("utf-8"), newline="")))
            exp = [csv_text(x) for x in row]
            if row and not any("\r" in e or "\x00" in e for e in exp) and (rows != [exp]) and exp != [""]:
                return ("csv-independent", "an independent CSV reader reads %r as %r, fields %r" % (out[1][1][:100], rows, exp))
        except (UnicodeDecodeError, csv.Error):
            pass
    if k == "tsv":
        row = c["row"]
        if not ok:
            return ("tsv-error", "totsv | fromtsv fails on %s: %s" % (sx.dumps(v)[:120], sx.dumps(impl)[:200]))
        out = impl[1][0][1:]
        if out[0] != ["A", ["A"] + row]:
            return ("tsv-roundtrip", "totsv | fromtsv changes %s into %s (line %s)" % (sx.dumps(v)[:150], sx.dumps(out[0])[:150], sx.dumps(out[1])[:100]))
    if k == "tab-outside" and ok:
        for x in impl[1][0][1:]:
            if x != ["S", b"REJECTED"]:
                return ("tabular-outside", "value outside the row domain is written: %s -> %s" % (sx.dumps(v), sx.dumps(x)[:100]))
    if k == "xml":
        if not ok:
            return ("xml-error", "fromxml | toxml fails on the well-formed document %r: %s" % (c["x"], sx.dumps(impl)[:200]))
        out = impl[1][0][1:]
        if out[0] != "true":
            return ("xml-idempotent", "fromxml | toxml | fromxml differs from fromxml on %r (written: %s)" % (c["x"], sx.dumps(out[1])[:200]))
        try:
            from xml.dom import minidom
            minidom.parseString(b"".join(d[1] for d in out[1][1:]))
        except Exception as e:
            return ("xml-wellformed", "what jaq writes is not well-formed XML (%s): %s" % (e, sx.dumps(out[1])[:200]))
    if k == "xml-bad" and ok and impl[1][0][1] != ["S", b"REJECTED"]:
        return ("xml-bad-accepted", "malformed XML %r is accepted: %s" % (c["x"], sx.dumps(impl[1][0][1])[:100]))
    return None


def csv_expect(x):
    """what fromcsv returns for a written scalar: numbers stay numbers, strings stay strings (quoted), null/empty -> documented"""
    return x


def csv_text(x):
    if x == NULL:
        return ""
    if x in (TRUE, FALSE):
        return x
    if x[0] in ("I", "B"):
        return x[1]
    if x[0] == "F":
        import struct
        f = struct.unpack(">d", bytes.fromhex(x[1]))[0]
        return repr(f)
    return x[1].decode("utf-8")


def py_equal(a, b):
    if isinstance(a, dict) and isinstance(b, dict):
        return list(a.keys()) == list(b.keys()) and all(py_equal(a[k], b[k]) for k in a) if set(a) == set(b) and False else (set(a) == set(b) and all(py_equal(a[k], b[k]) for k in a))
    if isinstance(a, list) and isinstance(b, list):
        return len(a) == len(b) and all(py_equal(x, y) for x, y in zip(a, b))
    if isinstance(a, bool) or isinstance(b, bool):
        return a is b
    if isinstance(a, float) and isinstance(b, float) and a != a and b != b:
        return True
    return a == b and type(a) == type(b) or (isinstance(a, (int, float)) and isinstance(b, (int, float)) and not isinstance(a, bool) and float(a) == float(b) and isinstance(a, int) == isinstance(b, int))


def lit(v):
    """jq program text denoting the value"""
    if isinstance(v, str):
        return v
    t = v[0]
    if t in ("I", "B"):
        return v[1] if not v[1].startswith("-") else "(%s)" % v[1]
    if t == "D":
        return v[1].decode()
    if t == "F":
        import struct
        f = struct.unpack(">d", bytes.fromhex(v[1]))[0]
        if f != f:
            return "nan"
        if f in (float("inf"), float("-inf")):
            return "infinite" if f > 0 else "(-infinite)"
        return "(%r)" % f if f < 0 or str(f).startswith("-") else repr(f)
    if t == "S":
        return json.dumps(v[1].decode("utf-8"), ensure_ascii=False)
    if t == "Y":
        return "([%s] | tobytes)" % ", ".join(str(b) for b in v[1])
    if t == "A":
        return "[" + ", ".join(lit(x) for x in v[1:]) + "]"
    if t == "O":
        return "{" + ", ".join("(%s): %s" % (lit(k), lit(x)) for k, x in v[1:]) + "}"
    raise ValueError(v)


def cli_ok(v):
    return not has_invalid_utf8(v) and not contains_nan(v) and "D" not in sx.dumps(v).replace('"', " ").split("(")


def custom(ctx):
    """--to F / --from F on the command line (with the output options) agree with the to*/from* filters and round-trip"""
    rng, tier = ctx["rng"], ctx["tier"]
    n = 40 if tier == "quick" else 400
    yv = [v for v in yaml_values(rng, "quick") if cli_ok(v)]
    yv = [v for v in yv if isinstance(v, list) and v[0] in ("A", "O") and len(v) > 1][:]
    rng.shuffle(yv)
    opts_all = [[], ["-c"], ["--tab"], ["--indent", "0"], ["--indent", "1"], ["--indent", "5"], ["-S"], ["-S", "-c"]]
    plan = []   # (fmt, opts, literal, pre, reader args, expect literal)
    ymodel = {}
    for v in yv[:n]:
        for o in (opts_all if tier != "quick" else rng.sample(opts_all, 4)):
            plan.append(("yaml", o, lit(v), ".", [], lit(v)))
            ymodel[len(plan) - 1] = v
        plan.append(("cbor", rng.choice(opts_all[:6]), lit(v), ".", [], lit(v)))
    for pv in toml_values(rng, "quick")[:n]:
        v = from_json(pv)
        if cli_ok(v):
            plan.append(("toml", rng.choice(opts_all[:6]), lit(v), ".", [], lit(v)))
    scal = [NULL, TRUE, FALSE, I(1), I(-7), F(1.5), S("a"), S("a,b"), S("a\"b"), S("a\nb"), S(" a "), S("1"), S("true"), S("é"), S("x\ty")]
    for _ in range(n):
        rows = [[rng.choice(scal) for _ in range(rng.randint(1, 4))] for _ in range(rng.randint(1, 3))]
        rows = [r for r in rows if r != [NULL] and r != [S("")]]
        if rows:
            plan.append(("csv", rng.choice(opts_all[:6]), lit(A(*[A(*r) for r in rows])), ".[]", ["-n"], lit(A(*[A(*r) for r in rows]))))
        trows = [[rng.choice([S("a"), S("a b"), S("x\ty"), S("l1\nl2"), S("b\\s"), S("é"), S("a,b")]) for _ in range(rng.randint(1, 4))] for _ in range(rng.randint(1, 3))]
        plan.append(("tsv", rng.choice(opts_all[:6]), lit(A(*[A(*r) for r in trows])), ".[]", ["-n"], lit(A(*[A(*r) for r in trows]))))
    xmls = ["<a b=\"1\" c='\"'>t<d/>u<!-- c --><![CDATA[<x>]]></a>", "<?xml version=\"1.0\"?><!DOCTYPE a><a><b>é</b> <c/></a>", "<a xmlns:p=\"u\"><p:b p:c=\"d\"/>&amp;</a>"]
    stats = Counter = __import__("collections").Counter()
    viol = []
    jobs = []
    for fmt, o, l, pre, rargs, exp in plan:
        jobs.append(dict(args=["-n", "--to", fmt] + o + ["%s | %s" % (l, pre)]))
        tof = "to" + fmt
        jobs.append(dict(args=["-n", "--to", "raw"] + (["-j"] if fmt not in ("csv", "tsv") else []) + ["%s | %s | %s" % (l, pre, tof)]))
    res = cli.run_many(jobs)
    # the writer model with the same pretty-printer options (block style included)
    def pp_of(o):
        ind = "  "
        if "--tab" in o:
            ind = "\t"
        if "--indent" in o:
            ind = " " * int(o[o.index("--indent") + 1])
        if "-c" in o:
            ind = None
        return [ind.encode() if ind is not None else "none", "true" if "-S" in o else "false"]
    mres = jq.run_model_cases([["y%d" % k, "yamlwrite"] + pp_of(plan[k][1]) + [v] for k, v in ymodel.items()])
    disagreements = []
    for k, v in ymodel.items():
        rc, out, err = res[2 * k]
        m = mres.get("y%d" % k)
        if rc == 0 and isinstance(m, list) and m[0] == "S":
            if out == b"---\n" + m[1] + b"\n...\n":
                stats["agree"] += 1
            else:
                stats["disagree"] += 1
                disagreements.append(dict(case=dict(filter="--to yaml %s: %s" % (" ".join(plan[k][1]), plan[k][2]), kind="yaml-cli-write", inputs=[v]), impl=["S", out], model=m))
        else:
            stats["unmodelled"] += 1
    back, bmeta = [], []
    for k, (fmt, o, l, pre, rargs, exp) in enumerate(plan):
        for which, (rc, out, err) in (("--to", res[2 * k]), ("filter", res[2 * k + 1])):
            if rc != 0:
                stats["cli_write_error"] += 1
                viol.append(dict(key="cli-write:" + fmt, what="writing %s with %s %s fails: %r" % (l[:150], which, " ".join(o), err[:150]), case=dict(filter=l, kind="cli-format"), impl=None))
                continue
            cmpf = "[inputs] == %s" % exp if rargs else "[., (%s)] | (.[0] == .[1])" % exp
            back.append(dict(args=["--from", fmt, "-c"] + rargs + [cmpf], stdin=out))
            bmeta.append((fmt, o, l, which, out))
            if fmt not in ("cbor",) and which == "--to":
                frm = "from" + fmt
                rd = "[%s] == %s" % (frm, exp) if rargs else "[first(%s), (%s)] | (.[0] == .[1])" % (frm, exp)
                back.append(dict(args=["-Rs", "-c", rd], stdin=out))
                bmeta.append((fmt, o, l, "--to then " + frm, out))
    for (fmt, o, l, which, doc), (rc, out, err) in zip(bmeta, cli.run_many(back)):
        if rc == 0 and out.strip() == b"true":
            stats["cli_roundtrip_ok"] += 1
            stats["cli:" + fmt] += 1
        else:
            stats["cli_roundtrip_diff"] += 1
            viol.append(dict(key="cli-roundtrip:%s:%s" % (fmt, " ".join(o) if which == "--to" else which),
                             what="%s written with %s %s and read back is not the original: document %r, result %r %r" % (l[:200], which, " ".join(o), doc[:200], out[:60], err[:120]),
                             case=dict(filter=l, kind="cli-format"), impl=None))
    # XML through the command line
    xj = [dict(args=["--from", "xml", "--to", "xml", "."], stdin=x.encode()) for x in xmls]
    for x, (rc, out, err) in zip(xmls, cli.run_many(xj)):
        (rc1, o1, _), (rc2, o2, _) = cli.run_many([dict(args=["--from", "xml", "-c", "."], stdin=x.encode()), dict(args=["--from", "xml", "-c", "."], stdin=out)])
        if rc != 0 or rc1 != 0 or rc2 != 0 or o1 != o2:
            viol.append(dict(key="cli-roundtrip:xml", what="--from xml --to xml changes %r into %r" % (x, out[:200]), case=dict(filter=x, kind="cli-format"), impl=None))
        else:
            stats["cli:xml"] += 1
    return dict(stats=dict((k, v) for k, v in stats.items() if not k.startswith("cli:")), evaluations=len(jobs) + len(back) + 3 * len(xmls), distinct=set(j["stdin"] for j in back), violations=viol, disagreements=disagreements,
                samples=[dict(args=back[0]["args"], stdin=back[0]["stdin"].decode("latin-1")[:100])] if back else [], coverage=dict(cli_formats=dict((k[4:], v) for k, v in stats.items() if k.startswith("cli:"))))
