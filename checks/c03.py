"""C03: streams are produced on demand; consumers of a prefix never run the rest."""
import os
import select
import subprocess
import time
import core
import jq
import cli
import sx
from values import *

RULE = ("programs S with a marker effect (error, halt, endless loop without output, input consumption) placed where the left-to-right "
        "semantics arrives only after the k-th output (8 stream shapes: comma, array iteration, foreach, recursive definition, nested "
        "pipes, limit/repeat, try, path), for all k up to the stream length, wrapped in every prefix consumer (first, limit, nth, isempty, "
        "any, all, label/break, //, select, the harness consumer that drops the iterator after j outputs); expected values from the "
        "extracted model and from the defining equations; inputs consumed are counted by the harness and compared with the count the "
        "definitional order gives; endless generators consumed incrementally (per-output work: time for 2N outputs against N); the "
        "command line on a pipe that stays open; non-trivial = distinct program text")
ASSUMPTIONS = ["a marker that the implementation evaluates shows as an error, a halt, a time-out (10 s) or a larger input count",
               "input consumption is observed (harness counter), not modelled: the model has no shared input stream"]
PARTIAL = ["the theorems are about the stream model and the interpreter model (rest-independence of prefix consumers, per construct); "
           "that the Rust iterators are as lazy is the correspondence, not a theorem; time per output is measured, not proved"]
LIMIT = 64
FUEL = 600
TIMEOUT = 10.0

ERR_MARKERS = ["error(\"boom\")", "error", "(null | error)", "halt(7)", "halt_error"]
LOOP_MARKERS = ["(def g: 0, (g | . + 1); g | select(. < 0))", "(def f: f; f)", "(range(0; 1; 0) | empty)", "(repeat(1) | empty)", "last(repeat(1))"]


def shapes(k, m):
    """stream expressions whose first k outputs are 0..k-1 and which reach the marker @M only afterwards"""
    out = []
    out.append(("comma", "(%s@M, 100)" % "".join("%d, " % i for i in range(k)), "null"))
    out.append(("range", "(range(%d), @M, 100)" % k, "null"))
    out.append(("iterate", "(.[] | if . == %d then @M else . end)" % k, A(*[I(i) for i in range(k + 2)])))
    out.append(("foreach", "foreach range(%d) as $i (0; $i; if $i == %d then @M else . end)" % (k + 2, k), "null"))
    out.append(("recdef", "(def f($i): if $i == %d then @M else $i, f($i + 1) end; f(0))" % k, "null"))
    out.append(("pipes", "(range(%d), @M | . + 0 | select(. >= 0))" % k, "null"))
    out.append(("repeat", "(limit(%d; 0 | recurse(. + 1)), @M)" % k, "null"))
    out.append(("trywrap", "(try (range(%d), @M) catch error)" % k, "null"))
    out.append(("inner-first", "(range(%d) | first(., @M)), @M" % k, "null"))
    out.append(("alt", "((range(%d), @M) // 100)" % k, "null"))
    out.append(("foreach-multi", "foreach 0 as $i (null; (range(%d), @M))" % k, "null"))
    out.append(("foreach3-multi", "foreach 0 as $i (null; (range(%d), @M); .)" % k, "null"))
    out.append(("foreach-multi-last", "foreach (0, 1) as $i (null; if $i == 0 then 7 else (range(%d), @M) end; if $i == 0 then empty else . end)" % k, "null"))
    return out


def consumers(k):
    """(name, template with @S, j needed, expected result from prefix P=0..k-1)"""
    cs = []
    if k >= 1:
        cs.append(("first", "first(@S)", 1, lambda P: [P[0]]))
        cs.append(("isempty", "isempty(@S)", 1, lambda P: ["false"]))
        cs.append(("any-true", "any(@S; . >= 0)", 1, lambda P: ["true"]))
        cs.append(("all-false", "all(@S; . < 0)", 1, lambda P: ["false"]))
        cs.append(("first-first", "first(first(@S), 5)", 1, lambda P: [P[0]]))
        cs.append(("alt-first", "first((@S) // 5)", 1, lambda P: [P[0]]))
        cs.append(("bind-first", "first(@S as $x | $x, $x)", 1, lambda P: [P[0]]))
    for j in range(1, k + 1):
        cs.append(("limit%d" % j, "limit(%d; @S)" % j, j, lambda P, j=j: P[:j]))
        cs.append(("arr-limit%d" % j, "[limit(%d; @S)]" % j, j, lambda P, j=j: [P[:j]]))
        cs.append(("nth%d" % (j - 1), "nth(%d; @S)" % (j - 1), j, lambda P, j=j: [P[j - 1]]))
        cs.append(("any-eq%d" % (j - 1), "any(@S; . == %d)" % (j - 1), j, lambda P: ["true"]))
        cs.append(("select%d" % (j - 1), "first(@S | select(. == %d))" % (j - 1), j, lambda P, j=j: [P[j - 1]]))
        cs.append(("label%d" % j, "label $out | foreach (@S) as $x (0; . + 1; if . == %d then $x, break $out else $x end)" % j, j, lambda P, j=j: P[:j]))
        cs.append(("label-pipe%d" % j, "label $f | (@S) | ., (if . == %d then break $f else empty end)" % (j - 1), j, lambda P, j=j: P[:j]))
        cs.append(("limit-pipe%d" % j, "limit(%d; @S) | . * 2" % j, j, lambda P, j=j: [2 * x for x in P[:j]]))
        cs.append(("until%d" % j, "first(@S | select(. >= %d))" % (j - 1), j, lambda P, j=j: [P[j - 1]]))
    return cs


def pyv(x):
    if isinstance(x, dict):
        return O(*[(S(k), pyv(v)) for k, v in x.items()])
    if isinstance(x, list):
        return A(*[pyv(y) for y in x])
    if isinstance(x, int):
        return I(x)
    return x


def gen(ctx):
    rng, tier = ctx["rng"], ctx["tier"]
    cases = []
    kmax = 3 if tier == "quick" else 5
    for k in range(1, kmax + 1):
        for sname, s, inp in shapes(k, k + 2):
            markers = ERR_MARKERS + (LOOP_MARKERS if tier != "quick" else LOOP_MARKERS[:2])
            if sname in ("trywrap",):
                markers = [m for m in markers if not m.startswith("halt")] # halt is not caught: fine too, but keep classes apart
            cons = consumers(k)
            if tier == "quick":
                cons = rng.sample(cons, min(len(cons), 6))
            for m in markers:
                st = s.replace("@M", m)
                P = list(range(k))
                for cname, c, j, exp in cons:
                    if sname == "alt" and 0 in P and False:
                        continue
                    cases.append(dict(filter=c.replace("@S", st), inputs=[inp], kind="marker:" + sname, expect=[pyv(x) for x in exp(P)], cons=cname, marker=m))
                # the consumer of the iterator: stops right after j outputs
                for j in range(1, k + 1):
                    cases.append(dict(filter=st, inputs=[inp], kind="marker:" + sname, expect=[I(x) for x in P[:j]], limit=j, stop=True, cons="iterator-stop%d" % j, marker=m))
                for j in range(1, k):
                    cases.append(dict(filter=st, inputs=[inp], kind="marker:" + sname, expect=[I(x) for x in P[:j]], limit=j, cons="iterator-cut%d" % j, marker=m))
    # the same in path mode: streams of paths, every consumer inside and outside of path(...)
    for k in range(1, kmax + 1):
        arr = A(*[I(10 + i) for i in range(k + 2)])
        pshapes = [("path-comma", "(%s@M, .[0])" % "".join(".[%d], " % i for i in range(k))),
                   ("path-iterate", "(.[range(%d)], @M, .[0])" % k),
                   ("path-recdef", "(def f($i): if $i == %d then @M else .[$i], f($i + 1) end; f(0))" % k),
                   ("path-nontail", "(def g($i): .[$i], (g($i + 1) | .); limit(%d; g(0))), @M" % k)]
        pmarkers = ["error(\"boom\")", "halt(7)", "(def g: .[0], (g | .); g | select(false))", "(def f: f; f)"]
        for sname, s_ in pshapes:
            for m in pmarkers:
                st = s_.replace("@M", m)
                P = [A(I(i)) for i in range(k)]
                pc = [("path-first", "first(path(%s))" % st, [P[0]]), ("first-path", "path(first(%s))" % st, [P[0]]), ("path-isempty", "isempty(path(%s))" % st, ["false"])]
                for j in range(1, k + 1):
                    pc.append(("path-limit%d" % j, "limit(%d; path(%s))" % (j, st), P[:j]))
                    pc.append(("limit-path%d" % j, "path(limit(%d; %s))" % (j, st), P[:j]))
                    pc.append(("path-nth%d" % j, "nth(%d; path(%s))" % (j - 1, st), [P[j - 1]]))
                    pc.append(("path-label%d" % j, "label $f | path(%s) | ., (if . == [%d] then break $f else empty end)" % (st, j - 1), P[:j]))
                    pc.append(("paths-value%d" % j, "[limit(%d; path(%s))] as $ps | getpath($ps[-1])" % (j, st), [I(10 + j - 1)]))
                if tier == "quick":
                    pc = rng.sample(pc, min(len(pc), 5))
                for cname, f, exp in pc:
                    cases.append(dict(filter=f, inputs=[arr], kind="marker:" + sname, expect=exp, cons=cname, marker=m))
                for j in range(1, k + 1):
                    cases.append(dict(filter="path(%s)" % st, inputs=[arr], kind="marker:" + sname, expect=P[:j], limit=j, stop=True, cons="iterator-stop%d" % j, marker=m))
    # input consumption: (filter, limit, expected outputs, expected number of inputs consumed); inputs are 1, 2, 3, ...
    ins = [I(i) for i in range(1, 9)]
    T = []
    T.append(("first(inputs)", 1, [2], 2))
    T.append(("first(input, input)", 1, [2], 2))
    T.append(("isempty(inputs)", 1, ["false"], 2))
    T.append((". , input", 1, [1], 1))
    T.append((". , input", 2, [1, 2], 2))
    T.append(("(1, 2, input)", 2, [1, 2], 1))
    T.append(("first(range(3), input)", 1, [0], 1))
    T.append(("first(inputs, error)", 1, [2], 2))
    T.append(("first(foreach inputs as $x (0; . + $x))", 1, [2], 2))
    T.append(("limit(2; foreach inputs as $x (0; . + $x))", 2, [2, 5], 3))
    T.append(("first(repeat(input))", 1, [2], 2))
    T.append(("input as $x | first($x, input)", 1, [2], 2))
    T.append(("first(input // input)", 1, [2], 2))
    T.append(("first((input | not) // input)", 1, [3], 3))
    T.append(("first(inputs | select(. > 2))", 1, [3], 3))
    T.append(("label $f | inputs | if . >= 3 then ., break $f else empty end", 1, [3], 3))
    T.append(("any(inputs; . == 3)", 1, ["true"], 3))
    T.append(("all(inputs; . < 3)", 1, ["false"], 3))
    T.append(("first(input, (inputs | error))", 1, [2], 2))
    T.append(("try first(input, error) catch 0", 1, [2], 2))
    T.append(("[limit(0; inputs)]", 1, [[]], 1))
    T.append(("first(limit(3; inputs))", 1, [2], 2))
    T.append(("first(path(.. , input))", 1, [[]], 1))
    T.append(("first(., input) , 7", 2, [1, 7], 1))
    T.append(("if first(true, input) then 1 else 2 end", 1, [1], 1))
    T.append(("first(1, input) as $x | $x", 1, [1], 1))
    T.append(("[first(input), first(input, input)]", 1, [[2, 3]], 3))
    T.append(("reduce limit(2; inputs) as $x (0; . + $x)", 1, [5], 3))
    T.append(("first(path(., (input as $x | .)))", 1, [[]], 1))
    T.append(("path(first(., (input as $x | .)))", 1, [[]], 1))
    T.append(("[limit(1; path(., (input as $x | .), (input as $y | .)))]", 1, [[[]]], 1))
    T.append(("[limit(2; path(., (input as $x | .), (input as $y | .)))]", 1, [[[], []]], 2))
    T.append(("first(path(.. , (input as $x | ..)))", 1, [[]], 1))
    T.append(("input as $i | [first(path(., (input as $x | .))), input]", 1, [[[], 3]], 3))
    T.append(("first(getpath([]), input)", 1, [1], 1))
    T.append(("[limit(1; ., input)] | length", 1, [1], 1))
    T.append(("first(if . then ., input else input end)", 1, [1], 1))
    T.append(("first((., input) | select(. > 0))", 1, [1], 1))
    T.append(("first(., (input | tostring))", 1, [1], 1))
    T.append(("first(.[]?, ., input)", 1, [1], 1))
    T.append(("first(try (., input) catch 0)", 1, [1], 1))
    T.append(("first((., input) as $x | $x)", 1, [1], 1))
    T.append(("first(foreach (., input) as $x (0; $x))", 1, [1], 1))
    T.append(("first(reduce . as $x (0; $x), input)", 1, [1], 1))
    T.append(("first(label $l | (., input))", 1, [1], 1))
    T.append(("first(def f: ., input; f)", 1, [1], 1))
    T.append(("first({a: (., input)})", 1, [{"a": 1}], 1))
    # the update of foreach yields several outputs: the next one is not computed before the state is delivered
    T.append(("first(foreach 0 as $x (0; (5, input)))", 1, [5], 1))
    T.append(("first(foreach 0 as $x (0; (5, input); .))", 1, [5], 1))
    T.append(("limit(2; foreach (1, 2) as $x (0; (. + $x, input)))", 2, [1, 3], 1))
    T.append(("[limit(1; foreach (1, 2) as $x (0; (. + $x, input)))]", 1, [[1]], 1))
    # a break ends its label also below tail calls and inside a label entered later: what follows is not run
    T.append(("[label $o | ((def f: if . < 3 then (. + 1 | f) else (label $i | (., break $o)) end; f), input)]", 1, [[3]], 1))
    T.append(("[label $o | ((def f: if . < 3 then ., (. + 1 | f) else (label $i | break $o) end; f), input)]", 1, [[1, 2]], 1))
    T.append(("[label $o | (recurse(if . < 3 then . + 1 else (label $i | break $o) end), input)]", 1, [[1, 2, 3]], 1))
    T.append(("[label $o | (first(def f: if . < 3 then (. + 1 | f) else (., break $o) end; f), input)]", 1, [[3, 2]], 2))
    # index and slice filters with several outputs: the second one is not computed before the first position is delivered
    T.append(("[10, 20, 30] | first(.[0, input])", 1, [10], 1))
    T.append(("[10, 20, 30] | [first(.[0, input]), input]", 1, [[10, 2]], 2))
    T.append(("[10, 20, 30] | limit(1; .[1, input])", 1, [20], 1))
    T.append(("[10, 20, 30] | first(.[(1, input):])", 1, [[20, 30]], 1))
    T.append(("[10, 20, 30] | first(.[:(1, input)])", 1, [[10]], 1))
    T.append(("{\"a\": 5} | first(.[\"a\", input])", 1, [5], 1))
    T.append(("[10, 20, 30] | first(path(.[0, input]))", 1, [[0]], 1))
    T.append(("[[7], [8]] | first(.[0, input][0])", 1, [7], 1))
    T.append(("[[7], [8]] | first(.[0][0, input])", 1, [7], 1))
    T.append(("[10, 20, 30] | first(.[0, input]?)", 1, [10], 1))
    T.append(("[10, 20, 30] | first(.[0, (def f: f; f)])", 1, [10], 1))
    T.append(("[10, 20, 30] | label $l | .[0, input] | ., break $l", 1, [10], 1))
    T.append(("{\"a\": 5} | [label $l | path(.[\"a\", input]) | ., break $l] | length", 1, [1], 1))
    T.append(("[10, 20, 30] | first(getpath([0], [input]))", 1, [10], 1))
    T.append(("[10, 20, 30] | first(.[0, input] as $x | $x)", 1, [10], 1))
    # reduce folds its source as it comes: an update that stops the fold leaves the rest of the source alone
    T.append(("[(label $out | reduce inputs as $x (0; if $x == 3 then break $out else . + $x end)), input]", 1, [[4]], 4))
    T.append(("[(try reduce inputs as $x (0; error($x)) catch .), input]", 1, [[2, 3]], 3))
    T.append(("[reduce (1, input, input) as $x (0; empty)] | length", 1, [0], 1))
    T.append(("try reduce (1, (def f: f; f)) as $x (0; error(7)) catch .", 1, [7], 1))
    T.append(("[reduce (1, (def f: f; f)) as $x (0; empty)]", 1, [[]], 1))
    for j in range(1, 5):
        T.append(("limit(%d; inputs)" % j, j, list(range(2, 2 + j)), j + 1))
        T.append(("[limit(%d; inputs)]" % j, 1, [list(range(2, 2 + j))], j + 1))
        T.append(("nth(%d; inputs)" % j, 1, [2 + j], j + 2))
        T.append(("limit(%d; repeat(input))" % j, j, list(range(2, 2 + j)), j + 1))
        T.append(("[limit(%d; inputs)] | length" % j, 1, [j], j + 1))
        T.append(("first(inputs | select(. > %d))" % j, 1, [j + 1], j + 1))
        T.append(("limit(%d; inputs, error)" % j, j, list(range(2, 2 + j)), j + 1))
    for f, lim, outs, consumed in T:
        cases.append(dict(filter=f, inputs=ins, kind="inputs", expect=[pyv(x) for x in outs], limit=lim, stop=True, consumed=consumed, cons="inputs"))
        cases.append(dict(filter=f, inputs=["cycle"] + ins, kind="inputs-endless", expect=[pyv(x) for x in outs], limit=lim, stop=True, consumed=consumed, cons="inputs"))
    # endless generators, consumed incrementally (small n: also against the model)
    G = [("repeat(1)", lambda i: 1), ("0 | recurse(. + 1)", lambda i: i), ("range(0; 1; 0)", lambda i: 0), ("range(5; infinite)", lambda i: 5 + i),
         ("(def f: ., (. + 1 | f); 0 | f)", lambda i: i), ("foreach repeat(1) as $x (0; . + $x)", lambda i: i + 1), ("0 | while(true; . + 1)", lambda i: i),
         ("(def f($n): $n, f($n + 2); f(0))", lambda i: 2 * i), ("0 | recurse(. + 1; . >= 0)", lambda i: i), ("[0] | recurse([.[0] + 1]) | .[0]", lambda i: i),
         ("0 | repeat(. + 1)" if False else "repeat(2) | . + 1", lambda i: 3)]
    for g, f in G:
        for n in ([1, 3, 7] if tier == "quick" else [1, 2, 3, 7, 20]):
            cases.append(dict(filter="limit(%d; %s)" % (n, g), inputs=["null"], kind="endless", expect=[I(f(i)) for i in range(n)], cons="limit"))
            cases.append(dict(filter="nth(%d; %s)" % (n, g), inputs=["null"], kind="endless", expect=[I(f(n))], cons="nth"))
            cases.append(dict(filter=g, inputs=["null"], kind="endless", expect=[I(f(i)) for i in range(n)], limit=n, stop=True, cons="iterator"))
        cases.append(dict(filter="first(%s)" % g, inputs=["null"], kind="endless", expect=[I(f(0))], cons="first"))
        cases.append(dict(filter="isempty(%s)" % g, inputs=["null"], kind="endless", expect=["false"], cons="isempty"))
    cases.append(dict(filter="limit(5; foreach inputs as $x (0; . + 1))", inputs=["cycle", I(9)], kind="endless", expect=[I(i) for i in range(1, 6)], limit=5, stop=True, consumed=6, cons="inputs"))
    return cases


def reclassify(c, r, cls):
    """the stop-mode consumer reports `cut` where the model's take may see the end: compare items only"""
    impl, model = r["impl"], r["model"]
    if cls == "disagree" and c.get("stop") and isinstance(impl, list) and impl[0] == "out" and isinstance(model, list) and model[0] == "out":
        if impl[1] == model[1] and impl[2] == "cut" and len(impl[1]) == c.get("limit"):
            return "agree"
    return cls


def oracle(c, impl, model=None):
    if not (isinstance(impl, list) and impl):
        return ("no-result:" + c["kind"], "no result for %s" % c["filter"])
    where = "%s [%s%s]" % (c["filter"], c.get("cons"), (", marker " + c["marker"]) if c.get("marker") else "")
    if impl[0] == "timeout":
        return ("diverges:%s:%s" % (c["kind"], c.get("cons")), "the consumer does not obtain its result (time-out): " + where)
    if impl[0] in ("panic", "crash"):
        return ("crash:" + c["kind"], "crash on " + where)
    if impl[0] != "out":
        return None
    want = c["expect"]
    lim = c.get("limit", LIMIT)
    got = impl[1]
    if got[:len(want)] != want[:lim] or (c.get("stop") and len(got) != len(want)):
        return ("result:%s:%s" % (c["kind"], c.get("cons")), "expected %s, obtained %s %s: %s" % (sx.dumps(["A"] + want)[:120], sx.dumps(["A"] + got)[:120], sx.dumps(impl[2])[:80], where))
    if not c.get("stop") and "limit" not in c:
        # the whole program is a prefix consumer: it ends normally after its result
        if impl[2] != "end" or len(got) != len(want):
            return ("result:%s:%s" % (c["kind"], c.get("cons")), "expected %s and a normal end, obtained %s %s: %s" % (sx.dumps(["A"] + want)[:120], sx.dumps(["A"] + got)[:120], sx.dumps(impl[2])[:80], where))
    if "consumed" in c and len(impl) > 3 and int(impl[3]) != c["consumed"]:
        return ("inputs-consumed", "%s consumed %s inputs, the definitional order consumes %d" % (where, impl[3], c["consumed"]))
    return None


def custom(ctx):
    """work per output of endless generators; the command line on a pipe that stays open"""
    tier = ctx["tier"]
    stats = {}
    viol = []
    J = cli.jaq_bin()
    # 1. time for N and 2N outputs
    N = 100000 if tier == "quick" else 400000
    progs = ["[limit(@N; repeat(1))] | length", "nth(@N; 0 | recurse(. + 1))", "[limit(@N; range(0; 1; 0))] | length", "first(range(0; infinite) | select(. >= @N))",
             "[limit(@N; def f: ., (. + 1 | f); 0 | f)] | length", "last(limit(@N; foreach repeat(1) as $x (0; . + $x)))"]
    expect = lambda p, n: str(n)
    jobs = []
    for p in progs:
        for n in (N, 2 * N):
            jobs.append(dict(args=["-n", "-c", p.replace("@N", str(n))], timeout=120))
    import resource

    def timed(j):
        """CPU time of the child (user + system), not wall time: other work on the machine must not look like growing work per output"""
        r0 = resource.getrusage(resource.RUSAGE_CHILDREN)
        rc, out, err = cli.run_one(j["args"], timeout=j["timeout"])
        r1 = resource.getrusage(resource.RUSAGE_CHILDREN)
        return ((r1.ru_utime - r0.ru_utime) + (r1.ru_stime - r0.ru_stime), rc, out.strip())
    times = [timed(j) for j in jobs]
    for i in range(len(progs)):
        # a measurement that looks super-linear is repeated (twice) before it counts; the best pair is kept
        for _ in range(2):
            (t1, rc1, o1), (t2, rc2, o2) = times[2 * i], times[2 * i + 1]
            if rc1 == 0 and rc2 == 0 and t2 > 6 * t1 + 1.0:
                a, b = timed(jobs[2 * i]), timed(jobs[2 * i + 1])
                if b[0] - 6 * a[0] < t2 - 6 * t1:
                    times[2 * i], times[2 * i + 1] = a, b
    for i, p in enumerate(progs):
        (t1, rc1, o1), (t2, rc2, o2) = times[2 * i], times[2 * i + 1]
        ok = rc1 == 0 and rc2 == 0 and o1 == str(N).encode() and o2 == str(2 * N).encode()
        if not ok:
            viol.append(dict(key="endless-result", what="%s with N=%d/%d gives %r/%r (status %d/%d)" % (p, N, 2 * N, o1[:40], o2[:40], rc1, rc2), case=dict(filter=p, kind="endless-cost"), impl=None))
        elif t2 > 6 * t1 + 1.0:
            viol.append(dict(key="endless-cost", what="%s: %d outputs take %.2fs, %d take %.2fs - the work per output grows" % (p, N, t1, 2 * N, t2), case=dict(filter=p, kind="endless-cost"), impl=None))
        else:
            stats["endless_cost_ok"] = stats.get("endless_cost_ok", 0) + 1
    # 1b. natives against the definitions their documentation gives (jaq-core/src/funs.rs), k-th output by k-th output:
    #     what the consumer of the first outputs sees must be the same, errors of the remainder included
    RANGE_DEF = "def r($from; $to; $by): $from | if $by > 0 then while(. < $to; . + $by) elif $by < 0 then while(. > $to; . + $by) else while(. != $to; . + $by) end; r($a; $b; $c)"
    LIMIT_DEF = "def lim($n; f): if $n <= 0 then empty else label $out | foreach f as $x ($n; . - 1; if . <= 0 then $x, break $out else $x end) end; lim($a; @S)"
    SKIP_DEF = "def skp($n; f): if $n <= 0 then f else foreach f as $x ($n; . - 1; if . >= 0 then empty else $x end) end; skp($a; @S)"
    rpool = [I(0), I(1), I(3), I(-1), I(-3), F(0.5), F(2.5), S("a"), S("b"), NULL, A(I(1)), A(), POS_INF, NEG_INF, TRUE, O()]
    if tier == "quick":
        rpool = rpool[:6] + ctx["rng"].sample(rpool[6:], 4)
    dcases = []
    pairs = []
    k = 0
    for a in rpool:
        for b in rpool:
            for c in rpool:
                for lim in (1, 3):
                    vs = [["a", a], ["b", b], ["c", c]]
                    dcases.append(["n%d" % k, "run", b"range($a; $b; $c)", vs, ["null"], str(lim), "stop"])
                    dcases.append(["d%d" % k, "run", RANGE_DEF.encode(), vs, ["null"], str(lim), "stop"])
                    pairs.append((k, "range(%s; %s; %s) cut after %d" % (sx.dumps(a), sx.dumps(b), sx.dumps(c), lim)))
                    k += 1
    streams = ["(1, 2, 3)", "(1, error(\"x\"), 3)", "(1, 2, error(\"x\"))", "(error(\"x\"))", "empty", "(1, 2, halt(3))", "range(5)", "(.[]?, 1)", "(1, (2, 3 | ., error))"]
    for st in streams:
        for a in [I(-1), I(0), I(1), I(2), I(3), I(4), F(1.5), F(0.5), POS_INF]:
            for lim in (1, 2, 4):
                vs = [["a", a]]
                for nm, nat, df in (("limit", "limit($a; %s)" % st, LIMIT_DEF.replace("@S", st)), ("skip", "skip($a; %s)" % st, SKIP_DEF.replace("@S", st))):
                    if nm == "skip" and a[0] == "F" and a != POS_INF:
                        continue        # the sketch in the documentation is about whole counts
                    dcases.append(["n%d" % k, "run", nat.encode(), vs, ["null"], str(lim), "stop"])
                    dcases.append(["d%d" % k, "run", df.encode(), vs, ["null"], str(lim), "stop"])
                    pairs.append((k, "%s with $a=%s cut after %d" % (nat, sx.dumps(a), lim)))
                    k += 1
    dres = core.run_cases(core.JAQH, dcases, per_case_timeout=10.0)
    for k_, what in pairs:
        n_, d_ = dres.get("n%d" % k_), dres.get("d%d" % k_)
        nn, dd = core.norm_out(n_), core.norm_out(d_)
        # only the class of an error is compared (the messages of natives and definitions differ)
        def cls(x):
            if isinstance(x, list) and x and x[0] == "out":
                t = x[2]
                return [x[1], "error" if isinstance(t, list) and t and t[0] in ("err", "errc") else t]
            return x
        if cls(nn) == cls(dd):
            stats["definition_agree"] = stats.get("definition_agree", 0) + 1
        else:
            stats["definition_differ"] = stats.get("definition_differ", 0) + 1
            viol.append(dict(key="definition:" + what.split("(")[0], what="%s: the native gives %s, its documented definition %s" % (what, sx.dumps(n_)[:150], sx.dumps(d_)[:150]),
                             case=dict(filter=what, kind="definition"), impl=n_))
    # 2. a pipe that stays open: each output appears before the next input is written
    def session(args, feeds, wait_exit):
        p = subprocess.Popen([J] + args, stdin=subprocess.PIPE, stdout=subprocess.PIPE, stderr=subprocess.PIPE)
        outs = []
        try:
            for f in feeds:
                p.stdin.write(f)
                p.stdin.flush()
                r, _, _ = select.select([p.stdout], [], [], 5)
                outs.append(os.read(p.stdout.fileno(), 4096) if r else None)
            rc = None
            if wait_exit:
                try:
                    rc = p.wait(5)
                except subprocess.TimeoutExpired:
                    rc = "running"
        finally:
            p.kill()
            p.wait()
        return outs, rc
    sessions = [
        (["-c", "."], [b"1\n", b"[2]\n", b"\"x\"\n"], False, [b"1\n", b"[2]\n", b"\"x\"\n"], None),
        (["-c", ". as $x | input | [$x, .]"], [b"1 2\n", b"3 4\n"], False, [b"[1,2]\n", b"[3,4]\n"], None),
        (["-c", "-n", "first(inputs)"], [b"1\n"], True, [b"1\n"], 0),
        (["-c", "-n", "limit(2; inputs)"], [b"1\n", b"2\n"], True, [b"1\n", b"2\n"], 0),
        (["-c", "-n", "input, input"], [b"1\n", b"2\n"], True, [b"1\n", b"2\n"], 0),
        (["-c", "-n", "foreach inputs as $x (0; . + $x)"], [b"1\n", b"2\n", b"3\n"], False, [b"1\n", b"3\n", b"6\n"], None),
        (["-c", "-n", "label $f | inputs | if . == 2 then ., break $f else . end"], [b"1\n", b"2\n"], True, [b"1\n", b"2\n"], 0),
        (["-c", "-n", "first(inputs | select(. > 1))"], [b"1\n", b"2\n"], True, [None, b"2\n"], 0),
        (["-c", "-n", "isempty(inputs)"], [b"1\n"], True, [b"false\n"], 0),
        (["-r", "-n", "-R", "first(inputs)"], [b"line one\n"], True, [b"line one\n"], 0),
    ]
    for args, feeds, we, want, wrc in sessions:
        outs, rc = session(args, feeds, we)
        if outs != want or (we and rc != wrc):
            viol.append(dict(key="pipe:" + " ".join(args[-1:]), what="jaq %s fed %r one by one on an open pipe: outputs %r (status %r), expected %r (status %r)" % (" ".join(args), feeds, outs, rc, want, wrc),
                             case=dict(filter=args[-1], kind="pipe"), impl=None))
        else:
            stats["pipe_ok"] = stats.get("pipe_ok", 0) + 1
    # 3. an endless generator into a reader that closes early
    for prog in ["repeat(1)", "range(0; infinite)", "0 | recurse(. + 1)"]:
        p1 = subprocess.Popen([J, "-n", "-c", prog], stdout=subprocess.PIPE, stderr=subprocess.DEVNULL)
        lines = [p1.stdout.readline() for _ in range(3)]
        p1.stdout.close()
        try:
            rc = p1.wait(10)
            stats["head_ok"] = stats.get("head_ok", 0) + 1
        except subprocess.TimeoutExpired:
            p1.kill()
            p1.wait()
            viol.append(dict(key="head", what="jaq -n '%s' keeps running after its reader has gone" % prog, case=dict(filter=prog, kind="pipe"), impl=None))
        if len([l for l in lines if l]) != 3:
            viol.append(dict(key="head-lines", what="jaq -n '%s' did not deliver three lines to an early-closing reader" % prog, case=dict(filter=prog, kind="pipe"), impl=None))
    return dict(stats=stats, evaluations=len(jobs) + len(sessions) + 3 + len(dcases), distinct=set(p for p in progs), violations=viol, samples=[], coverage=dict(endless_N=N))
