"""C16: a program split into modules computes what its inlined form computes."""
import os
import shutil
import tempfile
import core
import jq
import cli
import sx

RULE = ("random acyclic module graphs on disk (diamonds, name clashes, mixed include/import, data imports, calls under binders, "
        "definitions shadowing across modules) run by the jaq binary against the single program obtained by textual inlining "
        "(imported definitions renamed, included ones in place) run by the same binary; graphs with cycles against the Coq model of "
        "the loader (circular vs loaded); look-up order, ~ and $ORIGIN, extension rule, absolute paths on real directories; "
        "non-trivial = distinct (graph, output)")
ASSUMPTIONS = ["the inlined program is produced by a Python inliner written for this check (textual, definitions renamed apart)"]
PARTIAL = ["inline_equiv (compiled modules = inlined program) is established by the binary-vs-binary oracle, not proved; proved: "
           "load-once and circular-import detection of the loader model"]


class Mod:
    def __init__(self, name):
        self.name = name
        self.deps = []      # (kind, target Mod, alias) kind in include/import
        self.data = []      # (alias, values-json-text)
        self.defs = []      # (name, params, body using calls f / alias::f / $alias)


BODIES = ["1", ". + 1", "[., 1]", "\"{N}\"", ". as $v | [$v, \"{N}\"]", "(1, 2)", "if . then \"{N}\" else 0 end", "[.[]?]", "$g"]
# module-level definitions that call themselves: in tail position, behind an output, and inside a constructor
REC_BODIES = ["if (type == \"number\") and . < 3 then (. + 1 | {SELF}) else \"{N}\" end",
              "if (type == \"number\") and . < 2 then ., (. + 1 | {SELF}) else [., \"{N}\"] end",
              "if (type == \"number\") and . < 2 then [. + 1 | {SELF}] else 0 end",
              "if (type == \"array\") and length > 0 then (.[1:] | {SELF}) else \"{N}\" end",
              "(if type == \"number\" then . else 0 end) as $n | if $n < 3 then ($n + 1 | {SELF}) // 5 else $n end"]


NATIVE0 = ["floor", "tojson", "utf8bytelength", "not", "add", "keys"]
NATIVE1 = ["ltrimstr", "has", "contains", "map", "select"]


def gen_graph(rng, n, cyclic=False):
    mods = [Mod("m%d" % i) for i in range(n)]
    for i, m in enumerate(mods):
        # dependencies only on later modules (acyclic), unless cyclic
        for j in range(i + 1, n):
            if rng.random() < 0.45:
                kind = rng.choice(["include", "import"])
                m.deps.append((kind, mods[j], "a%d" % j))
        # the same directive once more after another one: the later occurrence counts for shadowing, the file is loaded once
        if len(m.deps) >= 2 and rng.random() < 0.35:
            m.deps.append(rng.choice(m.deps[:-1]))
        if rng.random() < 0.3:
            m.data.append(("d%d" % i, "[%d, \"x\"] {\"k\": %d}" % (i, i)))
        names = rng.sample(["f", "g", "h", "f"], rng.randint(1, 3))
        # definitions named like built-in filters (native ones and ones of the prelude) shadow them for everybody who includes or imports them
        if rng.random() < 0.4:
            names.insert(rng.randint(0, len(names)), rng.choice(NATIVE0 + NATIVE1))
        for nm in names:
            params = rng.choice([[], [], ["x"], ["$x"]])
            if nm in NATIVE0:
                params = []
            if nm in NATIVE1:
                params = rng.choice([["x"], ["$x"]])
            body = rng.choice(BODIES).replace("{N}", m.name)
            if not params and nm not in NATIVE0 and rng.random() < 0.3:
                body = rng.choice(REC_BODIES).replace("{N}", m.name).replace("{SELF}", nm)
            # call into dependencies
            calls = []
            for kind, t, alias in m.deps:
                for dn, dp, _ in t.defs if False else []:
                    pass
            m.defs.append([nm, params, body])
    # add calls after all defs exist
    for m in mods:
        for d in m.defs:
            callable_ = []
            for kind, t, alias in m.deps:
                for dn, dp, _ in t.defs:
                    call = (dn if kind == "include" else alias + "::" + dn)
                    if len(dp) == 1:
                        call += "(2)"
                    callable_.append(call)
            for alias, _ in m.data:
                callable_.append("$" + alias)
            if callable_ and rng.random() < 0.8:
                d[2] = "[(%s), (%s)]" % (d[2], rng.choice(callable_))
            if d[1] == ["x"] and rng.random() < 0.5:
                d[2] = "[x, (%s)]" % d[2]
            if d[1] == ["$x"] and rng.random() < 0.5:
                d[2] = "[$x, (%s)]" % d[2]
    if cyclic and n >= 2:
        a, b = rng.sample(range(n), 2)
        hi, lo = max(a, b), min(a, b)
        mods[hi].deps.append((rng.choice(["include", "import"]), mods[lo], "c%d" % lo))
    return mods


def shadow_graph(name, variant):
    """m0 includes m1, which defines a filter named like a built-in one (native or of the prelude); m0 calls it unqualified -
    from another definition and, in the second variant, through a third module that includes m0"""
    m0, m1, m2 = Mod("m0"), Mod("m1"), Mod("m2")
    ar1 = name in NATIVE1
    m1.defs.append([name, ["$x"] if ar1 else [], "[\"m1\", $x]" if ar1 else "\"m1\""])
    call = name + ("(2)" if ar1 else "")
    if variant == 0:
        m0.deps.append(("include", m1, "a1"))
        m0.defs.append(["f", [], "[(.), (%s)]" % call])
        return [m0, m1]
    m2.deps.append(("include", m1, "a1"))
    m2.defs.append(["g", [], "[(%s), (. | %s)]" % (call, call)])
    m0.deps.append(("import", m2, "a2"))
    m0.defs.append(["f", [], "[(.), (a2::g)]"])
    return [m0, m2, m1]


def module_text(m):
    out = []
    for kind, t, alias in m.deps:
        out.append("include \"%s\";" % t.name if kind == "include" else "import \"%s\" as %s;" % (t.name, alias))
    for alias, _ in m.data:
        out.append("import \"%s_%s\" as $%s;" % (m.name, alias, alias))
    for nm, params, body in m.defs:
        out.append("def %s%s: %s;" % (nm, "(" + "; ".join(params) + ")" if params else "", body))
    return "\n".join(out) + "\n"


def main_text(rng, mods, inline=False):
    """the main program: directives + a call of everything reachable"""
    m0 = mods[0]
    calls = []
    for nm, params, _ in m0.defs:
        calls.append("M::%s%s" % (nm, "(3)" if params else ""))
    return calls


def inline_program(mods, main_calls, gvars):
    """single program: every module's definitions, renamed `<module>__name`; a module's calls are resolved as the loader scopes
    them: own earlier definitions first (later shadows earlier), then included modules (later includes shadow), imports via alias"""
    order = []
    seen = set()

    def visit(m):
        if m.name in seen:
            return
        seen.add(m.name)
        for _, t, _ in m.deps:
            visit(t)
        order.append(m)
    visit(mods[0])
    text = []
    import re

    def exported(m):
        """name/arity -> mangled, for the definitions visible to an includer of m (m's own defs; later wins) — not transitive"""
        tab = {}
        for idx, (nm, params, _) in enumerate(m.defs):
            tab[(nm, len(params))] = "%s__%s_%d" % (m.name, nm, idx)
        return tab
    for m in order:
        # scope at each definition: included modules' exports in inclusion order, then own earlier defs
        base = {}
        for kind, t, alias in m.deps:
            if kind == "include":
                base.update(exported(t))
        own = {}
        for idx, (nm, params, body) in enumerate(m.defs):
            scope = dict(base)
            scope.update(own)
            mangled = "%s__%s_%d" % (m.name, nm, idx)
            scope_self = dict(scope)
            scope_self[(nm, len(params))] = mangled     # recursion
            b = body
            # data variables
            for alias, _ in m.data:
                b = b.replace("$" + alias, "$%s__%s" % (m.name, alias))
            # qualified calls
            for kind, t, alias in m.deps:
                if kind == "import":
                    for (dn, ar), mg in exported(t).items():
                        b = re.sub(r"\b%s::%s\b(?=\()" % (alias, dn), mg, b) if ar == 1 else re.sub(r"\b%s::%s\b(?!\()" % (alias, dn), mg, b)
            # unqualified calls
            for (dn, ar), mg in sorted(scope_self.items(), key=lambda kv: -len(kv[0][0])):
                if ar == 1:
                    b = re.sub(r"(?<![\w:$@.])%s(?=\()" % dn, mg, b)
                else:
                    b = re.sub(r"(?<![\w:$@.\"])%s\b(?![\w(:\"])" % dn, mg, b)
            text.append("def %s%s: %s;" % (mangled, "(" + "; ".join(params) + ")" if params else "", b))
            own[(nm, len(params))] = mangled
    # data imports as variables bound around everything
    binds = []
    for m in order:
        for alias, vals in m.data:
            binds.append("[%s] as $%s__%s | " % (vals.replace("] {", "], {"), m.name, alias))
    m0 = mods[0]
    ex = exported(m0)
    calls = []
    for c in main_calls:
        nm = c[3:].split("(")[0]
        ar = 1 if "(" in c else 0
        calls.append(ex[(nm, ar)] + ("(3)" if ar else ""))
    return "".join(binds) + "\n".join(text) + "\n[" + ", ".join(calls) + "]"


def custom(ctx):
    rng, tier = ctx["rng"], ctx["tier"]
    base = os.path.join(core.ROOT, "build", "c16")
    shutil.rmtree(base, ignore_errors=True)
    os.makedirs(base)
    stats = dict(graphs=0, inline_ok=0, inline_diff=0, cyc_ok=0, cyc_diff=0, lookup_ok=0, lookup_diff=0)
    violations, samples = [], []
    distinct = set()
    n = 120 if tier == "quick" else 2000
    jobs, meta = [], []
    for gi in range(n + len(NATIVE0 + NATIVE1) * 2):
        mods = gen_graph(rng, rng.randint(1, 5)) if gi < n else shadow_graph((NATIVE0 + NATIVE1)[(gi - n) // 2], (gi - n) % 2)
        d = tempfile.mkdtemp(prefix="g%d-" % gi, dir=base)
        for m in mods:
            with open(os.path.join(d, m.name + ".jq"), "w") as f:
                f.write(module_text(m))
            for alias, vals in m.data:
                with open(os.path.join(d, "%s_%s.json" % (m.name, alias)), "w") as f:
                    f.write(vals)
        calls = main_text(rng, mods)
        if not calls:
            continue
        main = "import \"m0\" as M; [" + ", ".join(calls) + "]"
        inl = inline_program(mods, calls, [])
        inp = rng.choice([b"null", b"1", b"[1,2]", b"{\"a\":true}"])
        jobs.append(dict(args=["-L", d, "-c", "--arg", "g", "G", main], stdin=inp))
        jobs.append(dict(args=["-c", "--arg", "g", "G", inl], stdin=inp))
        meta.append((d, main, inl, mods))
    res = cli.run_many(jobs)
    for k, (d, main, inl, mods) in enumerate(meta):
        (rc1, o1, e1), (rc2, o2, e2) = res[2 * k], res[2 * k + 1]
        stats["graphs"] += 1
        if rc2 == 3:
            # the inliner produced something that does not compile: a call the module system must reject as well (e.g. no access to a
            # definition that is not in scope); then both must fail to compile
            if rc1 != 3:
                stats["inline_diff"] += 1
                violations.append(dict(key="module-scope", what="the modular program compiles (status %d) but its inlined form does not: a module sees a definition it must not see. main: %s" % (rc1, main),
                                       case=dict(filter=main, kind="modules", files={m.name: module_text(m) for m in mods}, inlined=inl), impl=None))
            else:
                stats["inline_ok"] += 1
            continue
        if (rc1, o1) != (rc2, o2):
            stats["inline_diff"] += 1
            violations.append(dict(key="inline-equiv", what="modules: status %d stdout %r; inlined program: status %d stdout %r" % (rc1, o1[:200], rc2, o2[:200]),
                                   case=dict(filter=main, kind="modules", files={m.name: module_text(m) for m in mods}, inlined=inl), impl=None))
        else:
            stats["inline_ok"] += 1
            distinct.add(o1)
            if len(samples) < 2:
                samples.append(dict(files={m.name: module_text(m) for m in mods}, main=main, stdout=o1.decode("latin-1")[:200]))
    # cycles: implementation vs Coq loader model
    cyc_jobs, cyc_meta, mcases = [], [], []
    for gi in range(60 if tier == "quick" else 1000):
        mods = gen_graph(rng, rng.randint(2, 5), cyclic=rng.random() < 0.7)
        for m in mods:
            m.data = []
        d = tempfile.mkdtemp(prefix="c%d-" % gi, dir=base)
        for m in mods:
            with open(os.path.join(d, m.name + ".jq"), "w") as f:
                f.write("\n".join(("include \"%s\";" % t.name if kind == "include" else "import \"%s\" as %s;" % (t.name, alias)) for kind, t, alias in m.deps) + "\ndef f: 1;\n")
        ids = {m.name: i + 1 for i, m in enumerate(mods)}
        files = [[str(ids[m.name])] + [str(ids[t.name]) for _, t, _ in m.deps] for m in mods]
        mcases.append(["g%d" % gi, "modload", files, ["1"]])
        cyc_jobs.append(dict(args=["-L", d, "-n", "include \"m0\"; f"], stdin=b""))
        cyc_meta.append((gi, mods))
    model = jq.run_model_cases(mcases)
    for (gi, mods), (rc, out, err) in zip(cyc_meta, cli.run_many(cyc_jobs)):
        mo = model.get("g%d" % gi)
        want_ok = isinstance(mo, list) and mo[0] == "loaded"
        got_ok = rc == 0
        circ = b"circular" in err
        if want_ok != got_ok or (not want_ok and mo[0] == "circular" and not (rc == 3 and circ)):
            stats["cyc_diff"] += 1
            violations.append(dict(key="circular", what="module graph %s: jaq status %d (stderr %r), loader model says %s" % (
                {m.name: [t.name for _, t, _ in m.deps] for m in mods}, rc, err[:100], sx.dumps(mo)), case=dict(filter="include \"m0\"; f", kind="cycle"), impl=None))
        else:
            stats["cyc_ok"] += 1
            distinct.add(("cyc", gi))
    # look-up order and path rules on real directories
    v, s = lookup(base)
    violations += v
    stats["lookup_ok"], stats["lookup_diff"] = s
    shutil.rmtree(base, ignore_errors=True)
    return dict(stats=stats, evaluations=len(jobs) + len(cyc_jobs) + sum(s), distinct=distinct, violations=violations, samples=samples, coverage={})


def lookup(base):
    d = tempfile.mkdtemp(prefix="lk-", dir=base)
    def w(rel, text):
        p = os.path.join(d, rel)
        os.makedirs(os.path.dirname(p), exist_ok=True)
        with open(p, "w") as f:
            f.write(text)
    w("lib1/m.jq", "def who: \"lib1\";")
    w("lib2/m.jq", "def who: \"lib2\";")
    w("lib2/only2.jq", "def who: \"only2\";")
    w("meta/m.jq", "def who: \"meta\";")
    w("home/hm.jq", "def who: \"home\";")
    w("lib1/sub/rel.jq", "include \"sib\" {search: \".\"}; def who: sib;")
    w("lib1/sub/sib.jq", "def sib: \"sibling-of-rel\";")
    w("lib1/sib.jq", "def sib: \"sib-in-lib1\";")
    w("lib1/a.b", "def who: \"a.b\";")
    w("lib1/a.jq", "def who: \"a.jq\";")
    w("lib1/a.b.jq", "def who: \"a.b.jq\";")
    w("lib1/d.json", "1 2")
    w("lib1/d.x", "7")
    w("lib1/d.x.json", "8")
    w("lib1/scope.jq", "def uses_main: main_def;")
    w("lib1/scope2.jq", "def uses_var: $x;")
    w("lib1/glob.jq", "def uses_glob: $g;")
    w("lib1/shadow.jq", "def s: 1; def s: 2; def t: s;")
    w("lib1/priv.jq", "import \"m\" as inner; def pub: inner::who;")
    w("prog.jq", "include \"m\" {search: \"meta\"}; who")
    # metadata with ~ inside a module file (not only in the main program), competing with -L
    w("home/hlib/inner.jq", "def v: \"home\";")
    w("glob/inner.jq", "def v: \"global\";")
    w("home/hlib/dat.json", "[1]")
    w("glob/dat.json", "[2]")
    w("mods/tilde.jq", "include \"inner\" {search: \"~/hlib\"}; import \"dat\" as $dat {search: [\"nonexistent\", \"~/hlib\"]}; def f: [v, $dat];")
    # the same directive text in modules of different directories names different files
    w("pa/conf.json", "\"conf of a\"")
    w("pb/conf.json", "\"conf of b\"")
    w("pa/ma.jq", "import \"conf\" as $c {search: \".\"}; def a: $c[0];")
    w("pb/mb.jq", "import \"conf\" as $c {search: \".\"}; def b: $c[0];")
    w("pa/h.jq", "def h: \"helper of a\";")
    w("pb/h.jq", "def h: \"helper of b\";")
    w("pa/ua.jq", "include \"h\" {search: \".\"}; def ua: h;")
    w("pb/ub.jq", "include \"h\" {search: \".\"}; def ub: h;")
    w("pa/conf2.json", "1")
    w("pb/conf2.json", "2")
    T = [
        (["-L", "lib1", "-L", "lib2", "-n", "include \"m\"; who"], b'"lib1"\n', 0),
        (["-L", "lib2", "-L", "lib1", "-n", "include \"m\"; who"], b'"lib2"\n', 0),
        (["-L", "lib1", "-L", "lib2", "-n", "include \"only2\"; who"], b'"only2"\n', 0),
        (["-L", "lib1", "-n", "include \"m\" {search: \"meta\"}; who"], b'"meta"\n', 0),          # metadata (relative to cwd for inline main) before -L
        (["-L", "lib1", "-n", "include \"m\" {search: [\"nonexistent\", \"meta\"]}; who"], b'"meta"\n', 0),
        (["-L", "lib1", "-f", "prog.jq", "-n"], b'"meta"\n', 0),
        (["-L", "lib1", "-n", "include \"sub/rel\"; who"], b'"sibling-of-rel"\n', 0),             # metadata relative to the importing file
        (["-L", "lib1", "-n", "include \"hm\" {search: \"~\"}; who"], b'"home"\n', 0),
        (["-L", "~", "-n", "include \"hm\"; who"], b'"home"\n', 0),
        (["-L", "lib1", "-n", "include \"a.b\"; who"], b'"a.b"\n', 0),
        (["-L", "lib1", "-n", "include \"a\"; who"], b'"a.jq"\n', 0),
        (["-L", "lib1", "-n", "include \"a.jq\"; who"], b'"a.jq"\n', 0),
        (["-L", "lib1", "-nc", "import \"d\" as $d; $d"], b"[1,2]\n", 0),
        (["-L", "lib1", "-nc", "import \"d.x\" as $d; $d"], b"[7]\n", 0),
        (["-L", "lib1", "-n", "include \"%s/lib1/m\"; who" % d], b"", 3),                            # absolute paths are refused
        (["-L", "lib1", "-n", "include \"nope\"; 1"], b"", 3),
        (["-L", "lib1", "-n", "def main_def: 1; include \"scope\"; uses_main"], None, 3),
        (["-L", "lib1", "-n", "import \"scope\" as s; def main_def: 1; s::uses_main"], b"", 3),  # a module cannot see the loader's definitions
        (["-L", "lib1", "-n", "import \"scope2\" as s; 1 as $x | s::uses_var"], b"", 3),          # nor variables bound around the call
        (["-L", "lib1", "-n", "--arg", "g", "G", "import \"glob\" as s; s::uses_glob"], b'"G"\n', 0),   # command-line variables everywhere
        (["-L", "lib1", "-n", "import \"shadow\" as s; s::t, s::s"], b"2\n2\n", 0),                # later definitions shadow earlier ones
        (["-L", "lib1", "-n", "import \"m\" as x; who"], b"", 3),                                    # imported: only as x::who
        (["-L", "lib1", "-n", "import \"m\" as x; x::who"], b'"lib1"\n', 0),
        (["-L", "lib1", "-n", "include \"m\"; m::who"], b"", 3),
        (["-L", "lib1", "-n", "import \"priv\" as p; p::pub"], b'"lib1"\n', 0),
        (["-L", "lib1", "-n", "import \"priv\" as p; inner::who"], b"", 3),                          # imports of a module are private to it
        (["-L", "lib1", "-nc", "import \"d\" as $d; import \"priv\" as p; [$d, p::pub]"], b'[[1,2],"lib1"]\n', 0),
    ]
    T += [
        (["-L", "glob", "-nc", "include \"tilde\" {search: \"mods\"}; f"], b'["home",[[1]]]\n', 0),
        (["-L", "nowhere", "-nc", "include \"tilde\" {search: \"mods\"}; f"], b'["home",[[1]]]\n', 0),
        (["-L", "glob", "-nc", "include \"inner\" {search: \"~/hlib\"}; v"], b'"home"\n', 0),
        (["-nc", "import \"ma\" as a {search: \"pa\"}; import \"mb\" as b {search: \"pb\"}; [a::a, b::b]"], b'["conf of a","conf of b"]\n', 0),
        (["-nc", "import \"mb\" as b {search: \"pb\"}; import \"ma\" as a {search: \"pa\"}; [a::a, b::b]"], b'["conf of a","conf of b"]\n', 0),
        (["-nc", "import \"ua\" as a {search: \"pa\"}; import \"ub\" as b {search: \"pb\"}; [a::ua, b::ub]"], b'["helper of a","helper of b"]\n', 0),
        (["-nc", "import \"conf2\" as $x {search: \"pa\"}; import \"conf2\" as $y {search: \"pb\"}; [$x, $y]"], b'[[1],[2]]\n', 0),
        (["-nc", "import \"conf\" as $x {search: \"pa\"}; import \"ma\" as a {search: \"pa\"}; import \"mb\" as b {search: \"pb\"}; [$x[0], a::a, b::b]"], b'["conf of a","conf of a","conf of b"]\n', 0),
    ]
    jobs = [dict(args=a, stdin=b"", cwd=d, env={"HOME": os.path.join(d, "home")}) for a, _, _ in T]
    ok = bad = 0
    viol = []
    for (a, eo, ec), (rc, out, err) in zip(T, cli.run_many(jobs)):
        if (eo is not None and out != eo) or rc != ec:
            bad += 1
            viol.append(dict(key="lookup:" + a[-1][:40], what="jaq %s: stdout %r status %d (stderr %r); documented: %r status %d" % (" ".join(a), out[:100], rc, err[:120], eo, ec),
                             case=dict(filter=a[-1], kind="lookup", args=a), impl=None))
        else:
            ok += 1
    return viol, (ok, bad)
