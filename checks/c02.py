"""C02: path(f), getpath and updates agree on the positions a filter denotes."""
import itertools
import json
from values import *
from values import from_json
from programs import Gen, Scope
import sx

RULE = ("path expressions: exhaustive combinations (depth <= 2) of 14 path atoms under | , // if, plus random path terms of the "
        "generator (bindings, reduce/foreach, first/last/limit/skip, select, recurse, getpath, definitions, ?) x inputs (all JSON "
        "trees with <= 4 nodes over a 4-atom set, plus larger ones) x update filters with 0/1/2 outputs; the three evaluators "
        "(values, paths, update) of the implementation against the model's; oracle = in-language identities on the implementation "
        "(path/path_value/getpath agreement, the manual's reduction rules for |=, desugarings of = += //= ...); non-trivial = "
        "distinct output")
ASSUMPTIONS = ["identities are compared modulo error text (an error on one side must be an error on the other)"]
PARTIAL = []

ST = 'def st(f): [(try (f | [.]) catch {e: true})]; '
ATOMS = [".", ".[]", ".[]?", ".a", ".a?", ".[0]", ".[-1]", ".[1:]", ".[:1]", "..", ".b", ".[\"a\",\"b\"]", "empty", ".[0,1]"]
UPDS = ["empty", ". as $v | [$v]", "(1, 2)", "null", "if type == \"number\" then . + 1 else . end", "."]
VALUE_EXPRS = ["1", "[.]", "{}", "{a: .}", ". + 1", "$x", ".a = 1", "\"s\"", "tostring", "-(.)", ". and true", "length", "(.a |= 1)", "[.[]?]", ". == 1"]


def small_inputs():
    atoms = [None, 1, "s", [], {}]
    out = list(atoms)
    for a in atoms:
        out.append([a])
        out.append({"a": a})
    for a, b in itertools.product([None, 1, [], {}], repeat=2):
        out.append([a, b])
        out.append({"a": a, "b": b})
        out.append([[a], b])
        out.append({"a": {"b": a}, "b": b})
    out += [[1, [2, 3]], {"a": [1, {"b": 2}], "b": {"a": [3]}}, [[1, 2], [3, 4]], {"a": 1, "b": 2, "c": 3}, [0, 1, 2, 3], "abc", 5, True]
    return out


def gen(ctx):
    rng, tier = ctx["rng"], ctx["tier"]
    cases = []
    inputs = [from_json(x) for x in small_inputs()]
    paths = list(ATOMS)
    for a, b in itertools.product(ATOMS, repeat=2):
        paths += ["(%s | %s)" % (a, b), "(%s, %s)" % (a, b), "(%s // %s)" % (a, b)]
        if rng.random() < 0.15:
            paths.append("(if %s then %s else %s end)" % (rng.choice([".a?", ".[0]?", "true", "(true,false)", "empty"]), a, b))
    g = Gen(rng, max_depth=4)
    nrand = 400 if tier == "quick" else 6000
    for _ in range(nrand):
        paths.append("(" + g.term(Scope(), rng.choice([2, 3, 4]), path=True) + ")")
    if tier == "quick":
        base = paths[:len(ATOMS)]
        rest = paths[len(ATOMS):]
        rng.shuffle(rest)
        paths = base + rest[:900]
    for p in paths:
        for inp in rng.sample(inputs, 3 if tier == "quick" else 8):
            # (1) paths agree with values; getpath(path(p)) reproduces p
            cases.append(dict(filter=ST + ". as $in | [st([path(%s)]), st([path_value(%s) | .[0]]), st([path_value(%s) | .[1]]), st([%s]), st([path(%s) as $p | $in | getpath($p)])]" % (p, p, p, p, p),
                              inputs=[inp], kind="paths", p=p))
            u = rng.choice(UPDS)
            # (2) updates: implementation vs model, plus reduction rules
            cases.append(dict(filter=ST + "[st(%s |= (%s)), st(%s = 7), st(%s += 1), st(%s //= 3)]" % (p, u, p, p, p), inputs=[inp], kind="update", p=p))
    # reduction rules as equations
    for _ in range(600 if tier == "quick" else 8000):
        f, gg = rng.choice(paths), rng.choice(paths)
        u = rng.choice(UPDS)
        inp = rng.choice(inputs)
        rules = [
            ("pipe", "(%s | %s) |= (%s)" % (f, gg, u), "%s |= (%s |= (%s))" % (f, gg, u)),
            ("comma", "(%s, %s) |= (%s)" % (f, gg, u), "(%s |= (%s)) | (%s |= (%s))" % (f, u, gg, u)),
            ("empty", "empty |= (%s)" % u, "."),
            ("del", "del(%s)" % f, "%s |= empty" % f),
            ("del2", "del(%s, %s)" % (f, gg), "(%s, %s) |= empty" % (f, gg)),
            ("setpath", "setpath([0]; 9), setpath([\"a\",\"b\"]; 9)", "(getpath([0]) = 9), (getpath([\"a\",\"b\"]) = 9)"),
            ("delpaths", "delpaths([[0],[1]]), delpaths([[\"a\"]])", "(reduce ([0],[1]) as $p (.; getpath($p) |= empty)), (getpath([\"a\"]) |= empty)"),
            ("id", ". |= (%s)" % u, "first(%s)" % u if False else ". |= (%s)" % u),
            ("assign", "%s = (1, 2)" % f, "(1, 2) as $x | %s |= $x" % f),
            ("arith", "%s += (1, 2)" % f, "(1, 2) as $x | %s |= . + $x" % f),
            ("arith-sub", "%s -= 1" % f, "1 as $x | %s |= . - $x" % f),
            ("arith-mul", "%s *= 2" % f, "2 as $x | %s |= . * $x" % f),
            ("alt-upd", "%s //= (3, 4)" % f, "(3, 4) as $x | %s |= (. // $x)" % f),
            ("bind", "(%s as $x | %s) |= (%s)" % (rng.choice(["(0, 1)", "\"a\"", "(\"a\",\"b\")", "empty"]), rng.choice([".[$x]?", ".[$x]", "."]), u), None),
            ("ite", "(if %s then %s else %s end) |= (%s)" % (rng.choice([".a?", "true", "false", "(true, false)", "empty"]), f, gg, u), None),
            ("alt", "(%s // %s) |= (%s)" % (f, gg, u), "if first((%s) // false) then %s |= (%s) else %s |= (%s) end" % (f, f, u, gg, u)),
            ("recurse", ".. |= (%s)" % u, "def rec_up: (.[]? | rec_up), .; rec_up |= (%s)" % u if False else "walk(%s)" % u),
        ]
        nc = rng.choice(["if type == \"array\" then reverse else . + 10 end", "if type == \"array\" then . + [0] else . + 1 end", "[.]",
                         "if . == {} or . == [] then empty else . end", ". as $v | [$v, $v]", "if type == \"array\" then .[1:] else . end"])
        xa, xb = rng.choice([("0", "0"), ("0", "1"), ("1", "0"), ("\"a\"", "0"), ("0", "\"a\""), ("-1", "0")])
        fu = rng.choice([".[$p]", ".[$p]?", ".[$p][0]?", ".[$p:]", "(.[$p], .[0])"])
        rules += [
            ("foreach-upd", "foreach (%s, %s) as $p (.; %s) |= (%s)" % (xa, xb, fu, nc),
             "(. | (%s as $p | %s | (., (%s as $p | %s | .)))) |= (%s)" % (xa, fu, xb, fu, nc)),
            ("foreach3-upd", "foreach (%s, %s) as $p (.; %s; .) |= (%s)" % (xa, xb, fu, nc), "foreach (%s, %s) as $p (.; %s) |= (%s)" % (xa, xb, fu, nc)),
            ("reduce-upd", "reduce (%s, %s) as $p (.; %s) |= (%s)" % (xa, xb, fu, nc), "(. | (%s as $p | %s | (%s as $p | %s))) |= (%s)" % (xa, fu, xb, fu, nc)),
            ("recurse-def", "recurse |= (%s)" % nc, "recurse(.[]?) |= (%s)" % nc),
            ("recurse-def2", "recurse |= (%s)" % nc, "def r: ., (.[]? | r); r |= (%s)" % nc),
            ("ite-multi", "(if (true, false) then %s else %s end) |= (%s)" % (f, gg, nc), "((true, false) as $c | if $c then %s else %s end) |= (%s)" % (f, gg, nc)),
            ("select-multi", "(.[]? | select(.a?, .b?)) |= (%s)" % nc, "(.[]? | (.a?, .b?) as $c | if $c then . else empty end) |= (%s)" % nc),
        ]
        kind, lhs, rhs = rng.choice(rules)
        if rhs is None:
            rhs = lhs
        cases.append(dict(filter=ST + "[st(%s), st(%s)]" % (lhs, rhs), inputs=[inp], kind="rule-" + kind, eq=(lhs, rhs)))
    # element updates against the manual's iter_upd / index_upd / slice_upd (docs/advanced.dj)
    defs = ('def iter_upd(u; fail): if isarray then [.[] | u] elif isobject then with_entries(.value |= u) else fail end; '
            'def index_upd($i; u; fail): if (isstring or isarray) and ($i | isobject) then ([.[:$i.start], .[$i.start:$i.end], .[$i.end:]]? | .[1] |= u | add) // fail '
            'elif isarray then if 0 <= $i and $i < length then .[:$i] + [.[$i] | first(u)] + .[$i+1:] elif -length <= $i and $i < 0 then index_upd(length + $i; u; fail) else fail end '
            'elif isobject then if has($i) then with_entries(if .key == $i then {key, value: first(.value | u)} end) else . + ([{key: $i, value: first(null | u)}] | from_entries) end else fail end; '
            'def slice_upd($i; $j; u; fail): ([.[:$i], .[$i:$j], .[$j:]]? | .[1] |= u | add) // fail; ')
    arrs = [[1, 2, 3], [1], [], {"a": 1, "b": 2}, {}, [[1], [2]], {"a": [1]}]
    for x in arrs:
        for u in [".+1", "(.+1, .)", "select(. != 2)", ".", "[.]"]:
            if isinstance(x, dict) and u.startswith("select"):
                continue     # the manual's iter_upd does not describe deletion from objects
            if isinstance(x, list) and u == ".+1" and x and isinstance(x[0], list):
                continue
            cases.append(dict(filter=ST + defs + "[st(.[] |= (%s)), st(iter_upd(%s; error))]" % (u, u), inputs=[from_json(x)], kind="rule-iter_upd", eq=(".[] |= " + u, "iter_upd")))
        for i in [0, 1, -1, -3, 2]:
            for u in ["7", "(7, 8)", "[.]"]:
                if isinstance(x, list) and x and -len(x) <= i < len(x):
                    cases.append(dict(filter=ST + defs + "[st(.[$i] |= (%s)), st(index_upd($i; %s; error))]" % (u, u), inputs=[from_json(x)], vars=[("i", I(i))], kind="rule-index_upd", eq=(".[$i] |= " + u, "index_upd")))
        if isinstance(x, dict):
            for k in ["a", "zz"]:
                for u in ["7", "(7, 8)", "[.]"]:
                    cases.append(dict(filter=ST + defs + "[st(.[$i] |= (%s)), st(index_upd($i; %s; error))]" % (u, u), inputs=[from_json(x)], vars=[("i", S(k))], kind="rule-index_upd", eq=(".[$i] |= " + u, "index_upd")))
    for x in [[1, 2, 3, 4], [1], "abcd", "a"]:
        for i, j in itertools.product([0, 1, -1, 2], repeat=2):
            n = len(x)
            if slice(i, j).indices(n)[0] > slice(i, j).indices(n)[1]:
                continue     # crossing bounds: the manual's slice_upd formula is stated for start <= end
            for u in (["map(.+1)", "(map(.+1), .)", "[]"] if isinstance(x, list) else ["ascii_upcase", ". + .", "\"\""]):
                cases.append(dict(filter=ST + defs + "[st(.[$i:$j] |= (%s)), st(slice_upd($i; $j; %s; error))]" % (u, u), inputs=[from_json(x)], vars=[("i", I(i)), ("j", I(j))], kind="rule-slice_upd", eq=(".[$i:$j] |= " + u, "slice_upd")))
    # updating through the positions path(p) lists is updating through p: getpath($p) |= u, setpath, delpaths on every kind
    # of container (arrays, objects, text strings by slices), for paths that do not depend on the values they update
    # (no null containers and no `?` here: reading null.a yields null where updating it refuses; delpaths deletes in the
    # order given, relative to the current value, hence from the right)
    simple = [".[1:3]", ".[:1]", ".[1:]", ".[-1:]", ".[:-1]", ".[0]", ".[-1]", ".a", ".[]", ".a[1:]", ".[0][1:]", ".[0][:1]", ".a.b", ".[1:][:1]",
              ".[{\"start\":1,\"end\":3}]", ".[{\"start\":1}]", ".[{\"end\":-1}]"]
    conts = ["abcd", "a", "", "\u00e9\u20acxy", [1, 2, 3, 4], [], ["abcd", [1, 2, 3]], {"a": "xyz", "b": [1, 2]}, {"a": {"b": "uvw"}}, [[1, 2, 3], "pq"], 5]
    us = ["if type == \"string\" then ascii_upcase else . end", ".", "if type == \"string\" then . + \"!\" elif type == \"array\" then . + [0] else . end",
          "if type == \"string\" then \"\" elif type == \"array\" then [] else null end", "[.]"]
    for p in simple:
        for x in conts:
            u = rng.choice(us)
            xv = from_json(x)
            cases.append(dict(filter=ST + "[st(%s |= (%s)), st(getpath(path(%s)) |= (%s))]" % (p, u, p, u), inputs=[xv], kind="rule-getpath_upd", eq=(p + " |= " + u, "getpath(path(p)) |= u")))
            cases.append(dict(filter=ST + "[st(%s |= (%s)), st(reduce path(%s) as $q (.; setpath($q; getpath($q) | %s)))]" % (p, u, p, u), inputs=[xv], kind="rule-setpath_upd", eq=(p + " |= " + u, "reduce path(p) as $q (.; setpath($q; getpath($q) | u))")))
            cases.append(dict(filter=ST + "[st(del(%s)), st(delpaths([path(%s)] | reverse))]" % (p, p), inputs=[xv], kind="rule-delpaths", eq=("del(" + p + ")", "delpaths([path(p)] | reverse)")))
    # value-constructing expressions have no path and cannot be updated
    for e in VALUE_EXPRS:
        for inp in rng.sample(inputs, 3):
            cases.append(dict(filter=ST + "1 as $x | [st(path(%s)), st((%s) |= 1), st((%s) = 1)]" % (e, e, e), inputs=[inp], kind="value-expr", e=e))
    # derived filters
    for inp in inputs:
        cases.append(dict(filter=ST + "[st([paths]), st([path(..)] | .[1:]), st([paths] | map(. as $p | null | setpath($p; 1) | getpath($p))), st(. as $in | [paths] | map(. as $p | $in | delpaths([$p]) | [paths] | index([$p]))), "
                                  "st(to_entries), st([keys_unsorted[] as $k | {key: $k, value: .[$k]}]), st([paths(type == \"number\")]), st([paths | select(length == 1)] == [keys_unsorted[]? | [.]])]",
                          inputs=[inp], kind="derived"))
    return cases


def oracle(c, impl, model=None):
    if isinstance(impl, list) and impl and impl[0] in ("panic", "crash"):
        mterm = model[2] if isinstance(model, list) and len(model) > 2 else (model[0] if isinstance(model, list) and model else None)
        if impl[0] == "crash" and mterm in ("bot", "model-timeout", "model-crash", None):
            return None     # unbounded growth (e.g. recurse(f) |= [.]): exhaustion of memory/stack is excepted
        return ("panic:" + c["kind"], "panicked: " + sx.dumps(impl)[:200])
    if not (isinstance(impl, list) and impl and impl[0] == "out" and impl[2] == "end" and len(impl[1]) == 1):
        return None
    out = impl[1][0]
    k = c["kind"]
    if k == "paths":
        p1, pv0, pv1, vals, gp = out[1:6]
        if p1 != pv0:
            return ("path-vs-path_value", "path(p) and path_value(p) list different positions for p = %s" % c["p"])
        if "//" in c["p"]:
            return None    # f // g: values are the truthy outputs of f, paths follow the manual's `if first(f // false)` rule
        perr = [x for x in (p1[1:] + pv1[1:]) if isinstance(x, list) and x and x[0] == "O"]
        if perr:
            return None    # p contains a value-constructing part: path(p) must fail (checked by kind value-expr), nothing to compare
        if pv1 != vals:
            return ("values-vs-paths", "p and path_value(p) yield different values for p = %s: %s vs %s" % (c["p"], sx.dumps(vals)[:150], sx.dumps(pv1)[:150]))
        errs = [x for x in (p1[1:] + vals[1:]) if isinstance(x, list) and x and x[0] == "O"]
        if not errs and gp != vals:
            return ("getpath-path", "getpath(path(p)) does not reproduce p for p = %s: %s vs %s" % (c["p"], sx.dumps(gp)[:150], sx.dumps(vals)[:150]))
    if k.startswith("rule-") and out[1] != out[2]:
        return ("update-rule:" + k[5:], "%s  =/=  %s : %s vs %s" % (c["eq"][0][:120], c["eq"][1][:120], sx.dumps(out[1])[:150], sx.dumps(out[2])[:150]))
    if k == "value-expr":
        E = ["A", ["O", [["S", b"e"], "true"]]]
        for i in (1, 2, 3):
            if out[i] != E:
                return ("value-expr-path", "path or update of the value-constructing expression %s does not fail: %s" % (c["e"], sx.dumps(out[i])[:150]))
    if k == "derived":
        if out[1] != out[2]:
            return ("derived-paths", "paths differs from path(..) minus the root")
        if out[5] != out[6]:
            return ("derived-to_entries", "to_entries disagrees with keys_unsorted/indexing")
    return None
