"""C09: exact integers; operators follow the manual's rules."""
import itertools
from values import *
from values import from_json
import sx

RULE = ("operand pairs over integers straddling every boundary (isize, usize, 2^53, huge), floats, decimal literals and "
        "non-numeric values through + - * / % and unary minus; metamorphic f($n) vs f($n + $big - $big) for integer consumers; "
        "oracle = exact arithmetic in Python on the implementation's printed integers; non-trivial = distinct output")
ASSUMPTIONS = ["float results are compared bit-for-bit against SpecFloat arithmetic (model); NaN payloads collapsed"]

OPS = "[($a+$b), ($a-$b), ($a*$b), ($a/$b), (try ($a%$b) catch \"E\"), (-$a)]"
# the same with operands that were just computed (not shared with a variable): results must not depend on who else holds the value
OPS_FRESH = "[(($a+0)+$b), ($a-($b+0)), (($a+0)*($b+0)), (($a+0)/$b), (try ($a%($b+0)) catch \"E\"), (-($a+0))]"
OPS_FRESH2 = "[($a+($b+0)), (($a+0)-($b+0)), ($a*($b+0)), ($a/($b+0)), (try (($a+0)%$b) catch \"E\"), (-($a*1))]"
OPS_ERR = "[(try ($a+$b) catch \"E\"), (try ($a-$b) catch \"E\"), (try ($a*$b) catch \"E\"), (try ($a/$b) catch \"E\"), (try ($a%$b) catch \"E\"), (try (-$a) catch \"E\")]"
CONSUMERS = [
    "[1,2,3,4,5] | .[$n]", "[1,2,3,4,5] | .[$n:]", "[1,2,3,4,5] | .[:$n]", "\"abcde\" | .[$n:]",
    "[limit($n; 1,2,3,4)]", "[skip($n; 1,2,3,4)]", "[range($n)] | length", "[range(0; 10; $n)] | length",
    "\"ab\" * $n", "$n * \"ab\"", "[$n] | tobytes", "[$n] | implode", "{($n|tostring): 1}", "$n == $m", "[$n, $m] | sort == [$m, $n]",
    "{($n): 1} | has($m)", "[1,2,3] | has($n)", "[3,4,5] | .[$n] = 9", "[3,4,5] | del(.[$n])", "nth($n; 5,6,7,8)",
    "[.[]?] | first(range($n; $n+3))", "$n % 7", "$n | tojson", "$n | . + 0.5", "[$n | floor, round, ceil]", "$n | length", "$n | abs",
    "try ([1,2,3] | .[$n:$m]) catch \"E\"", "[$n | tostring | length]",
]


def ints():
    b = [0, 1, -1, 2, -2, 3, 7, 255, 256, 2 ** 31 - 1, 2 ** 31, -2 ** 31, 2 ** 32, 2 ** 53 - 1, 2 ** 53, 2 ** 53 + 1, -2 ** 53 - 1,
         ISIZE_MAX - 1, ISIZE_MAX, ISIZE_MAX + 1, ISIZE_MIN + 1, ISIZE_MIN, ISIZE_MIN - 1, 2 ** 64 - 1, 2 ** 64, -2 ** 64,
         2 ** 64 + 1, 10 ** 19, 10 ** 30, -10 ** 30, 3037000500, -3037000500, 2 ** 62, -2 ** 62, 2 ** 126 + 5]
    return b


def mk_int(rng, z, force=None):
    """an integer value in a representation of choice (Int only when it fits)"""
    fits = ISIZE_MIN <= z <= ISIZE_MAX
    rep = force or ("I" if fits and rng.random() < 0.6 else "B")
    if rep == "I" and not fits:
        rep = "B"
    return [rep, str(z)]


def gen(ctx):
    rng, tier = ctx["rng"], ctx["tier"]
    cases = []
    zs = ints()
    for x, y in itertools.product(zs, repeat=2):
        for (ra, rb) in (("I", "I"), ("B", "B"), ("I", "B"), ("B", "I")):
            if tier == "quick" and rng.random() < 0.6:
                continue
            a, b = mk_int(rng, x, ra), mk_int(rng, y, rb)
            r = rng.random()
            cases.append(dict(filter=OPS if r < 0.5 else (OPS_FRESH if r < 0.8 else OPS_FRESH2), vars=[("a", a), ("b", b)], kind="int-int", ints=(x, y)))
    nums = NUM_ATOMS
    for a, b in itertools.product(nums, repeat=2):
        if tier == "quick" and rng.random() < 0.7:
            continue
        cases.append(dict(filter=OPS, vars=[("a", a), ("b", b)], kind="num-num"))
    others = OTHER_ATOMS + STR_ATOMS[:12] + EMPTY + [A(I(1), I(2), I(1)), A(I(1)), O((S("a"), I(1)), (S("b"), O((S("c"), I(2))))),
                                                       O((S("b"), O((S("d"), I(3)))), (S("a"), I(5))), O((I(1), I(2))), I(2), I(0), I(-1), B(2), B(10 ** 30), F(2.0)]
    for a, b in itertools.product(others, repeat=2):
        cases.append(dict(filter=OPS_ERR, vars=[("a", a), ("b", b)], kind="nonnum"))
    # nested objects: recursive merge and right-biased union, with a Python reference
    def nested(depth):
        ks = rng.sample(["a", "b", "c", "d"], rng.randint(1, 3))
        d = {}
        for k in ks:
            r = rng.random()
            if depth > 0 and r < 0.6:
                d[k] = nested(depth - 1)
            else:
                d[k] = rng.choice([1, 2, None, "s", [1], {}])
        return d
    for _ in range(300 if tier == "quick" else 4000):
        x, y = nested(3), nested(3)
        cases.append(dict(filter="[($a * $b), ($a + $b), ($b * $a)]", vars=[("a", from_json(x)), ("b", from_json(y))], kind="obj-merge", py=(x, y)))
    strs = ["", "a", "ab", "a,b", ",a,,b,", "aXbXc", "XX", "aaa", "\u00e9,\u00e9"]
    seps = ["", ",", "X", "a", "aa", ",,", "\u00e9"]
    for x in strs:
        for sp in seps:
            cases.append(dict(filter="[($a / $b), (($a / $b) | join($b)), ($a / $b | length)]", vars=[("a", S(x)), ("b", S(sp))], kind="split-join", py=(x, sp)))
    # metamorphic: representation independence of integer consumers
    smalls = [0, 1, -1, 2, -2, 3, 5, -5, 6, 65, 255, 256, -255, 1114111, 1114112, 2 ** 31, ISIZE_MAX, ISIZE_MIN, 2 ** 64 - 1, 2 ** 64, -2 ** 64]
    for z in smalls:
        for flt in CONSUMERS:
            if ISIZE_MIN <= z <= ISIZE_MAX:
                for rep in ("I", "B"):
                    cases.append(dict(filter=flt, vars=[("n", [rep, str(z)]), ("m", ["B", str(z)])], kind="consumer", z=z, rep=rep, flt=flt))
            else:
                cases.append(dict(filter=flt, vars=[("n", ["B", str(z)]), ("m", ["B", str(z)])], kind="consumer", z=z, rep="B", flt=flt))
    return cases


def as_int(v):
    if isinstance(v, list) and v and v[0] in ("I", "B"):
        return int(v[1])
    return None


def trunc_rem(a, b):
    r = abs(a) % abs(b)
    return -r if a < 0 else r


_seen = {}


def merge_int(x):
    if isinstance(x, list):
        if x and x[0] == "B":
            return ["I", x[1]]
        return [merge_int(y) for y in x]
    return x


def unmodelled(model):
    return isinstance(model, list) and (model[0] == "unmodelled" or (model[0] == "out" and model[2] == "unmodelled"))


def oracle(c, impl, model=None):
    if isinstance(impl, list) and impl and impl[0] in ("panic", "crash"):
        if unmodelled(model) and (impl[0] == "crash" or (impl[0] == "panic" and impl[1] == b"capacity overflow")):
            return None   # allocation-sized result (string repetition): memory exhaustion is excepted
        return ("panic:" + c["kind"], "arithmetic panicked: " + sx.dumps(impl)[:200])
    if not (isinstance(impl, list) and impl and impl[0] == "out"):
        return None
    if c["kind"] == "int-int" and impl[2] == "end" and len(impl[1]) == 1:
        x, y = c["ints"]
        out = impl[1][0][1:]
        want = [x + y, x - y, x * y, None, (trunc_rem(x, y) if y != 0 else "E"), -x]
        for i, w in enumerate(want):
            if w is None:
                if not (isinstance(out[i], list) and out[i][0] == "F"):
                    return ("div-float", "integer division did not yield a float: " + sx.dumps(out[i]))
                continue
            if w == "E":
                if out[i] != ["S", b"E"]:
                    return ("rem-zero", "x % 0 on integers is not an error: " + sx.dumps(out[i]))
                continue
            g = as_int(out[i])
            if g != w:
                return ("int-exact", "integer result %s, exact value %d (operands %d, %d, op #%d)" % (sx.dumps(out[i]), w, x, y, i))
    if c["kind"] == "obj-merge" and impl[2] == "end" and len(impl[1]) == 1:
        x, y = c["py"]

        def mul(l, r):
            out = dict(l)
            for k, v in r.items():
                if k in out and isinstance(out[k], dict) and isinstance(v, dict):
                    out[k] = mul(out[k], v)
                else:
                    out[k] = v
            return out

        def add(l, r):
            out = dict(l)
            out.update(r)
            return out
        got = impl[1][0][1:]
        want = [from_json(mul(x, y)), from_json(add(x, y)), from_json(mul(y, x))]
        for i, (g, w) in enumerate(zip(got, want)):
            if g != w:
                return ("obj-%s" % ("mul", "add", "mul")[i], "object %s differs from the manual's equation: got %s want %s" % (("*", "+", "*")[i], sx.dumps(g)[:200], sx.dumps(w)[:200]))
    if c["kind"] == "split-join" and impl[2] == "end" and len(impl[1]) == 1:
        x, sp = c["py"]
        got = impl[1][0][1:]
        if x != "" and sp != "":
            want = x.split(sp)
            if got[0] != from_json(want):
                return ("split", "string / differs: %s" % sx.dumps(got[0]))
        if x != "" and got[1] != from_json(x):
            return ("split-join", "join is not the inverse of /: %s" % sx.dumps(got[1]))
    if c["kind"] == "consumer":
        # same consumer, same integer, other representation: identical behaviour
        key = (c["flt"], c["z"])
        res = sx.dumps(merge_int([impl[1], impl[2][0] if isinstance(impl[2], list) else impl[2]]))
        if key in _seen and _seen[key][0] != res:
            return ("repr-dependence", "consumer %s differs between representations %s/%s of %d: %s vs %s" % (c["flt"], _seen[key][1], c["rep"], c["z"], _seen[key][0][:150], res[:150]))
        _seen.setdefault(key, (res, c["rep"]))
    return None
