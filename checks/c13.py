"""C13: string codecs invert exactly; positions count characters; escaping is safe."""
import base64
import csv
import html
import io
import itertools
import json
import subprocess
import urllib.parse
import core
import jq
import sx
from values import *
from values import from_json

RULE = ("strings over an alphabet of ASCII specials (quotes, backslash, %, &, <, >, +, space, comma, tab, newline, CR, NUL, DEL), "
        "1-4-byte characters and invalid UTF-8 bytes: all of length <= 2 plus random longer ones; round trips (explode|implode, "
        "tobytes|tostring, @base64|@base64d, @uri|@urid, @html|@htmld, split|join, ascii case) on implementation and model; "
        "malformed base64/percent input; regex match offsets and split reassembly; independent consumers: /bin/sh for @sh (alone and "
        "inside format strings), Python csv/json/html/urllib/base64 for @csv @tsv @json @html @uri @base64; non-trivial = distinct output")
ASSUMPTIONS = ["/bin/sh (POSIX shell of the sandbox) and Python's csv, json, html, urllib.parse, base64 modules as independent consumers",
               "the regex engine (regex-bites) is modelled by contract: only its reported spans are checked"]
PARTIAL = ["regex matching itself is not modelled; csv/tsv consumers are oracles, not theorems"]

ALPHA = [b"a", b"Z", b"0", b" ", b"'", b"\"", b"\\", b"%", b"&", b"<", b">", b"+", b",", b"\t", b"\n", b"\r", b"\x00", b"\x7f", b"~", b"/", b"=", b";", b"$", b"`", b"!", b"*", b"?",
         b"\xc3\xa9", b"\xe2\x82\xac", b"\xf0\x9f\x98\x80", b"\xff", b"\xc3", b"\x80", b"\xe2\x82",
         # encodings that end in or contain the boundary bytes 0x80 / 0xBF of the continuation range
         b"\xc2\xbf", b"\xc3\xbf", b"\xef\xbf\xbd", b"\xf0\x9f\x98\xbf", b"\xc2\x80", b"\xbf",
         # what the encoders themselves write, and pieces of it: decoding must be one pass
         b"&lt;", b"&amp;", b"&quot;", b"&#39;", b"&gt;", b"lt;", b"amp;", b"#39;", b"%25", b"%2", b"25", b"'\\''", b"=="]


def strings(rng, tier):
    out = [b""] + list(ALPHA)
    for a, b in itertools.product(ALPHA, repeat=2):
        out.append(a + b)
    for _ in range(300 if tier == "quick" else 5000):
        out.append(b"".join(rng.choice(ALPHA) for _ in range(rng.randint(3, 12))))
    out += [b"it's", b"a'b'c", b"''", b"'\\''", b"$(id)", b"`id`", b"a b\tc\nd", b"-n", b"--", b"\\n", b"%41", b"%zz", b"&amp;", b"&lt", b"&#39;", b"a,b\"c\"\nd", b"1", b"true", b"null", b"\"\"",
            b"x" * 100, ("é" * 40).encode(), b"=1+1", b"@cmd", b"+1", b"-1"]
    return out


def gen(ctx):
    rng, tier = ctx["rng"], ctx["tier"]
    cases = []
    ss = strings(rng, tier)
    ctx["c13_strings"] = ss
    for s in ss:
        v = S(s)
        cases.append(dict(filter="[(explode | implode), (tobytes | tostring), (@base64 | @base64d), (@uri | @urid), (@html | @htmld), ascii_downcase, ascii_upcase, "
                                 "(explode | length), length, (tobytes | length), utf8bytelength, ([.[]?] | length), (explode | map(select(. < 0)) | length)]",
                          inputs=[v], kind="roundtrip", s=s))
        cases.append(dict(filter="[@base64, @uri, @html, @sh, @json, @text, ([.] | @csv), ([.] | @tsv), (@json \"v=\\(.)\"), (@html \"<\\(.)>\"), (@uri \"?q=\\(.)&r\"), (@sh \"echo \\(.)\"), (@base64 \"\\(.)\")]",
                          inputs=[v], kind="format", s=s))
    seps = [b"", b",", b"a", b"aa", b"\xc3\xa9", b"\xff", b" ", b"ab", b"\n"]
    for s in rng.sample(ss, 150 if tier == "quick" else 2000):
        sep = rng.choice(seps)
        cases.append(dict(filter="[(. / $x), ((. / $x) | join($x)), (split($x) | join($x)), (try (indices($x) | map(. as $i | $in | .[$i:][:($x | length)] == $x) | all) catch \"E\")] | . as $r | $r", inputs=[S(s)],
                          vars=[("x", S(sep)), ("in", S(s))], kind="split-join", s=s, sep=sep))
    # separators taken from the text itself, so that there are occurrences behind every kind of character
    for s in rng.sample(ss, 150 if tier == "quick" else 2000) + [("¿Qué? ¿Cómo?").encode(), "ÿÿ?ÿ?".encode(), "x\ufffd?\ufffd?".encode(), "\U0001F63F ? \U0001F63F?".encode(), b"\xc2\x80a\xc2\x80a"]:
        sg = seg(s)
        if not sg:
            continue
        i = rng.randrange(len(sg))
        sep = b"".join(sg[i:i + rng.choice([1, 1, 2])])
        cases.append(dict(filter="[(. / $x), ((. / $x) | join($x)), (split($x) | join($x)), (try (indices($x) | map(. as $i | $in | .[$i:][:($x | length)] == $x) | all) catch \"E\"), indices($x)] | . as $r | $r", inputs=[S(s)],
                          vars=[("x", S(sep)), ("in", S(s))], kind="split-join", s=s, sep=sep))
    # malformed decoder input
    bad64 = [b"Y", b"YQ", b"YQ=", b"YQ===", b"YR==", b"YWJ=", b"Y Q==", b"YQ==\n", b"!!!!", b"YQ==YQ==", b"=YQ=", b"YWJj\x00", b"YWJjZA", b"\xff\xff\xff\xff", b"YW-j", b"YW_j", b"YQ=a"]
    for b in bad64:
        cases.append(dict(filter="[(try @base64d catch \"REJECTED\")]", inputs=[S(b)], kind="bad-base64", s=b))
    badp = [b"%", b"%4", b"%zz", b"%4z", b"a%", b"%%41", b"%41%", b"%C3%A9", b"%c3%a9", b"%FF", b"+", b"a+b", b"%2", b"%g1", b"%1g"]
    for b in badp:
        cases.append(dict(filter="[@urid]", inputs=[S(b)], kind="bad-percent", s=b))
    # regex: offsets and lengths count characters; split parts and matches reassemble the string
    texts = ["aXbXc", "ééXaé", "€€ab€", "😀a😀b", "abcabc", "", "aaa", "a\nb", "ÉéÉ", "x1y22z333", " lead and trail "]
    res = ["X", "a", "é", "[a-z]", "[0-9]+", "", "a*", ".", "é+", "(?<n>[a-z])(?<d>[0-9]+)?", "\\s+", "€|😀", "b|c", "^", "$", "x?"]
    texts = [t.encode() for t in texts] + [b"a\x80\xc3\xa9b\xf0\x9f\x91\x8d\xe2\x82", b"\x80", b"a\xffb", b"\xc3", b"\xbf\xbfa", b"\xe2\x82a\x80"]
    res += [".+", "a(.)", "[^b]+", "(?s:.)", "a|b"]
    # capture groups under a repetition need not start in increasing order
    res += ["(?:(a)|(b))*", "((b)|(a))+", "(?:(?<x>c)|(?<y>b)|(a))+", "(?:(é)|(a)|(X))*", "(?:(.)(?:(b)|(a)))+"]
    texts += [b"ba", b"abba", b"cab", b"a\xc3\xa9Xa", b"bXa\xff"]
    for t, r in itertools.product(texts, res):
        t = t.decode("latin-1")
        cases.append(dict(filter="[[match($re; \"g\")] as $ms | ($ms | map(. as $m | $in | .[$m.offset : $m.offset + $m.length] == $m.string) | all), "
                                 "($ms | map(.captures[]? | select(.string != null) | . as $c | $in | .[$c.offset : $c.offset + $c.length] == $c.string) | all), "
                                 "([splits($re)] as $ps | [$ms[].string] as $mm | ([range($ps | length) as $i | $ps[$i], ($mm[$i] // \"\")] | add // \"\") == $in), "
                                 "(($ms | length) + 1 == ([splits($re)] | length) or $in == \"\"), ([scan($re; \"g\")] == [$ms[].string]), (test($re) == (($ms | length) > 0))]",
                          inputs=[S(t.encode("latin-1"))], vars=[("re", S(r.encode())), ("in", S(t.encode("latin-1")))], kind="regex", s=t, re=r))
    # a format string inside a format string is a string like any other: the outer format applies to it
    # the same laws under every flag set: with `n` empty matches are ignored by the matches and by the pieces between them alike
    ftexts = [b"a,b", b"a,,b,", b"", b",", b"aXbXc", b"\xc3\xa9,\xc2\xbf", b"ab", b"a\nb,c"]
    fres = [",*", ",", "X?", "", "[a-z]*", "(,)|(X)", "\\s*", "b*", ".", "^", "$"]
    for t, r, fl in itertools.product(ftexts, fres, ["n", "gn", "g", "", "gi", "nx", "gs", "gl", "gnl", "nl"]):
        cases.append(dict(filter="[[match($re; \"g\" + $fl)] as $ms | [splits($re; $fl)] as $ps | [$ms[].string] as $mm | "
                                 "(([range($ps | length) as $i | $ps[$i], ($mm[$i] // \"\")] | add // \"\") == $in), (($ms | length) + 1 == ($ps | length) or $in == \"\"), "
                                 "([scan($re; \"g\" + $fl)] == [$ms[].string]), ([split($re; $fl)] == [$ps]), (test($re; $fl) == (($ms | length) > 0))]",
                          inputs=[S(t)], vars=[("re", S(r.encode())), ("fl", S(fl.encode())), ("in", S(t))], kind="regex-flags", s=t, re=r + " / " + fl))
    fmts = ["@text", "@json", "@html", "@uri", "@sh", "@base64", "@base64d", "@urid", "@htmld"]
    lits = [("<'&%", ">\\\"x"), ("a b", "$(id)"), ("", ""), ("'", "'")]
    for F, G in itertools.product(fmts, repeat=2):
        for (A_, D_) in (lits if tier != "quick" else lits[:2]):
            for x in [b"it's <&> 100% \"q\"", b"a b;c|d&e", b"", b"YQ==", b"%41&amp;lt;"]:
                prog = "[(%s \"%s\\(%s \"%s\\(.)%s\")%s\"), (\"%s\" + ((\"%s\" + (. | %s) + \"%s\") | %s) + \"%s\")] | (.[0] == .[1])" % (F, A_, G, D_, A_, D_, A_, D_, G, A_, F, D_)
                cases.append(dict(filter="[try (%s) catch \"E\"]" % prog, inputs=[S(x)], kind="nested-format", s=x, fmts=(F, G)))
    return cases


def oracle(c, impl, model=None):
    if isinstance(impl, list) and impl and impl[0] in ("panic", "crash"):
        return ("panic:" + c["kind"], "panicked on %r: %s" % (c.get("s"), sx.dumps(impl)[:200]))
    if not (isinstance(impl, list) and impl and impl[0] == "out"):
        return None
    k = c["kind"]
    if impl[2] != "end" or len(impl[1]) != 1:
        if k in ("roundtrip", "split-join", "bad-percent"):
            return ("codec-error", "%s fails on %r: %s" % (k, c.get("s"), sx.dumps(impl)[:200]))
        if k == "format" and b"\x00" not in c["s"]:
            return ("codec-error", "%s fails on %r: %s" % (k, c.get("s"), sx.dumps(impl)[:200]))
        if k in ("regex", "regex-flags"):
            return ("regex-error", "regex filters fail on %r / %r: %s" % (c["s"], c["re"], sx.dumps(impl)[:200]))
        return None
    out = impl[1][0][1:]
    s = c.get("s")
    if k == "roundtrip":
        names = ["explode|implode", "tobytes|tostring", "@base64|@base64d", "@uri|@urid", "@html|@htmld"]
        for i, n in enumerate(names):
            if out[i] != ["S", s]:
                return ("roundtrip:" + n, "%s changes %r into %s" % (n, s, sx.dumps(out[i])[:120]))
        lo = bytes(b + 32 if 65 <= b <= 90 else b for b in s)
        up = bytes(b - 32 if 97 <= b <= 122 else b for b in s)
        if out[5] != ["S", lo] or out[6] != ["S", up]:
            return ("ascii-case", "ascii_downcase/upcase touch non-ASCII bytes of %r: %s %s" % (s, sx.dumps(out[5])[:80], sx.dumps(out[6])[:80]))
        nchars = len(seg(s))
        ninvalid = sum(len(x) for x in seg(s) if not valid(x))
        nvalid = sum(1 for x in seg(s) if valid(x))
        if out[8] != from_json(nchars):
            return ("length-chars", "length of %r is %s, it has %d characters" % (s, sx.dumps(out[8]), nchars))
        if out[7] != from_json(nvalid + ninvalid) or out[12] != from_json(ninvalid):
            return ("explode", "explode of %r: %s elements (%s negative), expected %d (%d)" % (s, sx.dumps(out[7]), sx.dumps(out[12]), nvalid + ninvalid, ninvalid))
        if out[9] != from_json(len(s)) or out[10] != from_json(len(s)):
            return ("byte-length", "byte length of %r: %s / %s" % (s, sx.dumps(out[9]), sx.dumps(out[10])))
    if k == "format":
        b64, uri, htm, sh, js, txt, csv_, tsv_, fjson, fhtml, furi, fsh, fb64 = out
        if b64 != ["S", base64.b64encode(s)]:
            return ("base64", "@base64 of %r: %s" % (s, sx.dumps(b64)[:100]))
        if urllib.parse.unquote_to_bytes(uri[1].decode("latin-1")) != s or any(ch in uri[1] for ch in b" \"<>&'+/?#=\\\n\t"):
            return ("uri", "@uri of %r: %s is not safe / does not decode back" % (s, sx.dumps(uri)[:100]))
        if furi[1] != b"?q=" + uri[1] + b"&r":
            return ("uri-format", "@uri format string: %s" % sx.dumps(furi)[:100])
        if fhtml[1] != b"<" + htm[1] + b">" or any(ch in htm[1] for ch in b"<>\"'"):
            return ("html-format", "@html output contains markup characters: %s / %s" % (sx.dumps(htm)[:100], sx.dumps(fhtml)[:100]))
        try:
            if html.unescape(htm[1].decode("utf-8")).encode("utf-8") != s:
                return ("html", "@html of %r does not decode back: %s" % (s, sx.dumps(htm)[:100]))
        except UnicodeDecodeError:
            pass
        try:
            txt_s = s.decode("utf-8")
            if json.loads(js[1].decode("utf-8")) != txt_s:
                return ("json", "@json of %r: %s does not parse back" % (s, sx.dumps(js)[:100]))
            if fjson[1] != b"v=" + js[1]:
                return ("json-format", "@json format string: %s" % sx.dumps(fjson)[:100])
        except UnicodeDecodeError:
            pass
        if txt != ["S", s] or fb64[1] != b64[1]:
            return ("text", "@text / @base64 format string: %s %s" % (sx.dumps(txt)[:80], sx.dumps(fb64)[:80]))
        # csv: one row with one field
        try:
            rows = list(csv.reader(io.StringIO(csv_[1].decode("utf-8"), newline="")))
            if s.decode("utf-8") != "" and (len(rows) != 1 or rows[0] != [s.decode("utf-8")]) and "\x00" not in s.decode("utf-8") and "\r" not in s.decode("utf-8"):
                return ("csv", "@csv of %r read back by a CSV reader as %r" % (s, rows))
        except (UnicodeDecodeError, csv.Error):
            pass
        # tsv: reference decoder
        fields = tsv_[1].split(b"\t")
        dec = tsv_decode(fields[0]) if len(fields) == 1 else None
        if dec != s or b"\n" in tsv_[1] or b"\r" in tsv_[1]:
            return ("tsv", "@tsv of %r is %s: not one clean field" % (s, sx.dumps(tsv_)[:100]))
    if k == "split-join":
        sep = c["sep"]
        parts, joined, joined2, idx_ok = out[:4]
        if len(out) > 4:
            try:
                t, x = s.decode("utf-8"), sep.decode("utf-8")
                want = [i for i in range(len(t)) if t.startswith(x, i)]
                if out[4] != ["A"] + [I(i) for i in want]:
                    return ("indices-ref", "indices(%r) in %r is %s, the character positions are %r" % (sep, s, sx.dumps(out[4])[:100], want))
            except UnicodeDecodeError:
                pass
        if s != b"" and joined != ["S", s]:
            return ("split-join", "(%r / %r) | join gives %s" % (s, sep, sx.dumps(joined)[:100]))
        if idx_ok not in ("true", ["S", b"E"]):
            return ("indices-chars", "indices(%r) in %r do not count characters" % (sep, s))
    if k == "bad-base64":
        try:
            ok = base64.b64decode(s, validate=True) is not None and len(s) % 4 == 0
        except Exception:
            ok = False
        if not ok and out[0] != ["S", b"REJECTED"]:
            return ("base64-malformed", "@base64d accepts the malformed input %r: %s" % (s, sx.dumps(out[0])[:100]))
    if k == "bad-percent":
        want = urllib.parse.unquote_to_bytes(s.decode("latin-1"))
        if out[0] != ["S", want]:
            return ("percent-malformed", "@urid of %r gives %s, an independent decoder gives %r" % (s, sx.dumps(out[0])[:100], want))
    if k == "nested-format":
        if out[0] not in ("true", ["S", b"E"]):
            return ("nested-format:%s in %s" % (c["fmts"][1], c["fmts"][0]), "a %s format string inside a %s format string is not formatted by the outer one on input %r" % (c["fmts"][1], c["fmts"][0], s))
        return None
    if k == "regex":
        names = ["match offsets/lengths", "capture offsets/lengths", "splits+matches reassemble", "split count", "scan", "test"]
        for i, n in enumerate(names):
            if out[i] != "true":
                return ("regex:" + n, "%s: text %r regex %r" % (n, c["s"], c["re"]))
    if k == "regex-flags":
        names = ["splits+matches reassemble", "split count", "scan", "split = [splits]", "test"]
        for i, n in enumerate(names):
            if out[i] != "true":
                return ("regex-flags:" + n, "%s: text %r regex/flags %r" % (n, c["s"], c["re"]))
    return None


def seg(bs):
    out = []
    rest = bs
    while rest:
        try:
            s = rest.decode("utf-8")
            out += [ch.encode("utf-8") for ch in s]
            break
        except UnicodeDecodeError as e:
            out += [ch.encode("utf-8") for ch in rest[:e.start].decode("utf-8")]
            out.append(rest[e.start:e.end])
            rest = rest[e.end:]
    return out


def valid(ch):
    try:
        ch.decode("utf-8")
        return True
    except UnicodeDecodeError:
        return False


def tsv_decode(f):
    out = bytearray()
    i = 0
    while i < len(f):
        if f[i] == 92 and i + 1 < len(f):
            m = {110: 10, 114: 13, 116: 9, 92: 92, 48: 0}.get(f[i + 1])
            if m is None:
                return None
            out.append(m)
            i += 2
        else:
            out.append(f[i])
            i += 1
    return bytes(out)


def custom(ctx):
    """@sh against a real POSIX shell: the words it produces are exactly the original strings"""
    rng, tier = ctx["rng"], ctx["tier"]
    ss = [s for s in strings(rng, tier) if b"\x00" not in s][: (500 if tier == "quick" else 6000)]
    cases = []
    for i, s in enumerate(ss):
        cases.append(dict(id="s%d" % i, filter="[@sh, (@sh \"printf '%s\\\\0' \\(.) \\(.)\"), ([., \"x y\", 1] | @sh)]", inputs=[S(s)]))
    res = jq.run_both(cases)
    script = []
    expect = []
    bad = []
    for i, s in enumerate(ss):
        r = res["s%d" % i]["impl"]
        if not (isinstance(r, list) and r[0] == "out" and r[2] == "end" and len(r[1]) == 1):
            bad.append(dict(key="sh-error", what="@sh fails on %r: %s" % (s, sx.dumps(r)[:150]), case=dict(filter="@sh", kind="sh", inputs=[S(s)]), impl=r))
            continue
        one, fmt, arr = [x[1] for x in r[1][0][1:]]
        script.append(b"printf '%s\\0' " + one + b"\n")
        expect.append(s)
        script.append(fmt + b"\n")
        expect += [s, s]
        script.append(b"printf '%s\\0' " + arr + b"\n")
        expect += [s, b"x y", b"1"]
    p = subprocess.run(["/bin/sh"], input=b"".join(script), stdout=subprocess.PIPE, stderr=subprocess.PIPE, timeout=120)
    got = p.stdout.split(b"\0")[:-1]
    stats = dict(sh_words=len(expect), sh_ok=0, sh_diff=0)
    if got != expect or p.returncode != 0 or p.stderr:
        # locate the first difference
        k = next((j for j, (a, b) in enumerate(zip(got, expect)) if a != b), min(len(got), len(expect)))
        stats["sh_diff"] = 1
        bad.append(dict(key="sh-safe", what="a POSIX shell evaluating @sh output recovers %r instead of %r (word %d; stderr %r)" % (
            got[k] if k < len(got) else None, expect[k] if k < len(expect) else None, k, p.stderr[:100]), case=dict(filter="@sh", kind="sh", inputs=[S(expect[k] if k < len(expect) else b"")]), impl=None))
    else:
        stats["sh_ok"] = len(expect)
    return dict(stats=stats, evaluations=len(ss), distinct=set(expect[:2000]), violations=bad, samples=[dict(string=ss[5].decode("latin-1"), sh=sx.dumps(res["s5"]["impl"])[:160])],
                coverage=dict(shell="/bin/sh"))
