"""C08: one total order; equal values are interchangeable keys."""
import itertools
from values import *
import sx

RULE = ("pairs/triples of values over an atom pool containing every number representation and boundary "
        "(machine/big integers, floats, decimal literals, +-0, +-inf), text/byte strings, containers; each run through "
        "comparison operators, object lookup/merge/equality, array subtraction, sort/unique/group_by/index on the "
        "implementation and on the model; oracle = order axioms and key interchangeability on the implementation alone; "
        "non-trivial = distinct output")
PARTIAL = ["val-level total preorder incl. objects and mixed int/float comparison: correspondence + oracle only (theorems cover floats and integers)"]
ASSUMPTIONS = ["NaN-free values; integers beyond 2^53 compared only with integers or infinities (the property's domain) for the oracle"]

P1 = "[$a<$b,$a<=$b,$a==$b,$a!=$b,$a>$b,$a>=$b]"
P2 = ("[({($a):1,\"x\":2}|has($b)), ({($a):1,\"x\":2}|.[$b]), ({($a):1,\"x\":2} == {\"x\":2,($b):1}), "
      "(({($a):1,\"y\":0} + {($b):2})|length), (({($a):1,\"y\":0} * {($b):2})|length), ([$a]-[$b]), "
      "([$a,$b]|sort) == ([$b,$a]|sort), ([$a,$b]|unique|length), ([$a,$b]|group_by(.)|length), "
      "([[$a],[$b],[$a]]|index([[$b]])), ([[$a]]|inside([[$b]])), ({($a):1,\"x\":2}|.[$b] = 7|length)]")
P3 = "[$a<=$b, $b<=$c, $a<=$c, ([$a,$b,$c]|sort) == ([$c,$b,$a]|sort), ([$c,$a,$b]|sort|.[0]<=.[1] and .[1]<=.[2])]"
P4 = "sort"


def unsafe_pair(a, b):
    """outside the property's domain: big integer next to a finite float (anywhere inside)"""
    la = list(leaves(a)) + list(leaves(b))
    big = any(isinstance(x, list) and is_big_int_atom(x) for x in la)
    flt = any(isinstance(x, list) and is_float_like(x) and not is_inf_atom(x) for x in la)
    return (big and flt) or contains_nan(a) or contains_nan(b)


def gen(ctx):
    rng, tier = ctx["rng"], ctx["tier"]
    pool = atoms()
    cases = []
    pairs = list(itertools.product(range(len(pool)), repeat=2))
    for i, j in pairs:
        a, b = pool[i], pool[j]
        cases.append(dict(filter=P1, vars=[("a", a), ("b", b)], kind="pair-cmp"))
        cases.append(dict(filter=P2, vars=[("a", a), ("b", b)], kind="pair-key"))
    trees = small_trees(rng, 60 if tier == "quick" else 250, 2)
    trees = [t for t in trees if not contains_nan(t)]
    for _ in range(500 if tier == "quick" else 6000):
        a, b = rng.choice(trees), rng.choice(trees)
        if rng.random() < 0.3:
            b = a
        cases.append(dict(filter=P1, vars=[("a", a), ("b", b)], kind="tree-cmp"))
        cases.append(dict(filter=P2, vars=[("a", a), ("b", b)], kind="tree-key"))
    small = [x for x in pool if not (isinstance(x, list) and x[0] in ("I", "B", "F", "D") and (is_big_int_atom(x)))]
    for _ in range(600 if tier == "quick" else 8000):
        a, b, c = rng.choice(small + trees), rng.choice(small + trees), rng.choice(small + trees)
        cases.append(dict(filter=P3, vars=[("a", a), ("b", b), ("c", c)], kind="triple"))
    for _ in range(100 if tier == "quick" else 1500):
        k = rng.randint(0, 7)
        arr = A(*[rng.choice(small + trees) for _ in range(k)])
        cases.append(dict(filter="[sort, (sort|sort), (sort_by(.)), (unique == (sort|unique)), (group_by(.)|add) == (sort|if length==0 then null else . end), (min == (sort|.[0])), (max == (sort|.[-1]))]", inputs=[arr], kind="sort"))
    return cases


def oracle(c, impl):
    if not (isinstance(impl, list) and impl and impl[0] == "out" and impl[2] == "end" and len(impl[1]) == 1):
        if isinstance(impl, list) and impl and impl[0] in ("panic", "crash"):
            return ("panic", "comparison/lookup panicked: " + sx.dumps(impl)[:200])
        return None
    vs = dict(c.get("vars", []))
    out = impl[1][0]
    if c["kind"] in ("pair-cmp", "tree-cmp"):
        if unsafe_pair(vs["a"], vs["b"]):
            return None
        lt, le, eq, ne, gt, ge = [x == "true" for x in out[1:]]
        if [lt, eq, gt].count(True) != 1:
            return ("trichotomy", "not exactly one of <, ==, > holds: " + sx.dumps(out))
        if le != (lt or eq) or ge != (gt or eq) or ne == eq:
            return ("derived-ops", "<=, >=, != inconsistent with <, ==, >: " + sx.dumps(out))
    if c["kind"] in ("pair-key", "tree-key"):
        a, b = vs["a"], vs["b"]
        if unsafe_pair(a, b):
            return None
        # run-time equality is not known here; use the results' own consistency:
        has, idx, objeq, addlen, mullen, sub, sortsame, uniqlen, grouplen, index, inside, setlen = out[1:]
        equal = (sub == ["A"])          # [$a]-[$b] == []  <=>  $a == $b (by cmp)
        want = dict(has="true" if equal else "false", objeq="true" if equal else "false",
                    addlen=["I", "2"] if equal else ["I", "3"], mullen=["I", "2"] if equal else ["I", "3"],
                    uniqlen=["I", "1"] if equal else ["I", "2"], grouplen=["I", "1"] if equal else ["I", "2"],
                    index=["I", "0"] if equal else ["I", "1"],
                    setlen=["I", "2"] if equal else ["I", "3"], sortsame="true" if equal else None)
        got = dict(has=has, objeq=objeq, addlen=addlen, mullen=mullen, uniqlen=uniqlen, grouplen=grouplen,
                   index=index, setlen=setlen, sortsame=sortsame)
        for k, w in want.items():
            if w is not None and got[k] != w:
                return ("key-interchange:" + k, "values equal=%s but %s gives %s: %s" % (equal, k, sx.dumps(got[k]), sx.dumps(out)))
    if c["kind"] == "triple":
        if unsafe_pair(vs["a"], vs["b"]) or unsafe_pair(vs["b"], vs["c"]) or unsafe_pair(vs["a"], vs["c"]):
            return None
        ab, bc, ac, sortsame, sorted_ok = [x == "true" for x in out[1:]]
        if ab and bc and not ac:
            return ("transitivity", "a<=b, b<=c but not a<=c")
        if not sorted_ok:
            return ("sort-sorted", "sort output is not sorted")
    return None
