"""C08: one total order; equal values are interchangeable keys."""
import itertools
from values import *
import sx

RULE = ("pairs/triples of values over an atom pool containing every number representation and boundary "
        "(machine/big integers, floats, decimal literals, +-0, +-inf), text/byte strings, containers; each run through "
        "comparison operators, object lookup/merge/equality, array subtraction, sort/unique/group_by/index on the "
        "implementation and on the model; oracle = order axioms and key interchangeability on the implementation alone; "
        "non-trivial = distinct output")
PARTIAL = ["mixed int/float comparison for integers between 4096 and 2^53 and key interchangeability beyond numbers: correspondence + oracle only "
           "(theorems: total preorder of nested values lifted from any class of numbers on which num_cmp is one; integers, NaN-free floats, small mixed)"]
ASSUMPTIONS = ["NaN-free values; integers beyond 2^53 compared only with integers or infinities (the property's domain) for the oracle"]

P1 = "[$a<$b,$a<=$b,$a==$b,$a!=$b,$a>$b,$a>=$b]"
P2 = ("[({($a):1,\"x\":2}|has($b)), ({($a):1,\"x\":2}|.[$b]), ({($a):1,\"x\":2} == {\"x\":2,($b):1}), "
      "(({($a):1,\"y\":0} + {($b):2})|length), (({($a):1,\"y\":0} * {($b):2})|length), ([$a]-[$b]), "
      "([$a,$b]|sort) == ([$b,$a]|sort), ([$a,$b]|unique|length), ([$a,$b]|group_by(.)|length), "
      "([[$a],[$b],[$a]]|index([[$b]])), ([[$a]]|inside([[$b]])), ({($a):1,\"x\":2}|.[$b] = 7|length)]")
P3 = "[$a<=$b, $b<=$c, $a<=$c, ([$a,$b,$c]|sort) == ([$c,$b,$a]|sort), ([$c,$a,$b]|sort|.[0]<=.[1] and .[1]<=.[2])]"
P4 = "sort"
P5 = ("[({($a): {($a): 1, \"y\": 2}, \"x\": 2} | .[$b][$b]), ({\"k\": {($a): 1, \"u\": $c}} == {\"k\": {\"u\": $c, ($b): 1}}), "
      "([{($a): $c, \"w\": 1}] | index({\"w\": 1, ($b): $c})), ([{\"w\": $c, ($a): 1}, {($b): 1, \"w\": $c}] | unique | length), "
      "({($a): 1, \"x\": 2} | del(.[$b]) | length), ({($a): 1, \"x\": 2} | .[$b] |= 5 | length), "
      "({\"x\": 2, ($a): 1} | to_entries | map([.key]) | index([[$b]])), ([[$a, 1]] | contains([[$b]])), ({($a): 1, \"x\": 2} | contains({($b): 1}))]")


def unsafe_pair(a, b):
    """outside the property's domain: big integer next to a finite float (anywhere inside)"""
    la = list(leaves(a)) + list(leaves(b))
    big = any(isinstance(x, list) and is_big_int_atom(x) for x in la)
    flt = any(isinstance(x, list) and is_float_like(x) and not is_inf_atom(x) for x in la)
    return (big and flt) or contains_nan(a) or contains_nan(b)


def gen(ctx):
    rng, tier = ctx["rng"], ctx["tier"]
    pool = atoms()
    cases = []
    pairs = list(itertools.product(range(len(pool)), repeat=2))
    for i, j in pairs:
        a, b = pool[i], pool[j]
        cases.append(dict(filter=P1, vars=[("a", a), ("b", b)], kind="pair-cmp"))
        cases.append(dict(filter=P2, vars=[("a", a), ("b", b)], kind="pair-key"))
    trees = small_trees(rng, 60 if tier == "quick" else 250, 2)
    trees = [t for t in trees if not contains_nan(t)]
    for _ in range(500 if tier == "quick" else 6000):
        a, b = rng.choice(trees), rng.choice(trees)
        if rng.random() < 0.3:
            b = a
        cases.append(dict(filter=P1, vars=[("a", a), ("b", b)], kind="tree-cmp"))
        cases.append(dict(filter=P2, vars=[("a", a), ("b", b)], kind="tree-key"))
    # equal values in different representations (numbers, zeros, byte/text strings, permuted objects), also as keys of
    # objects nested inside keys
    objs = [O((S("a"), I(1)), (S("b"), I(2))), O((I(1), S("x")), (S("k"), A(I(1))), (NULL, NULL)),
            O((O((S("a"), I(1)), (S("b"), F(2.0))), I(0)), (S("z"), O((S("p"), I(1)), (S("q"), I(2))))),
            A(O((S("x"), I(0)), (S("y"), NEG_ZERO))), O((A(I(1), I(2)), TRUE), (F(0.5), FALSE), (S(""), NULL))]
    bases = [t for t in trees if isinstance(t, list) and t[0] in ("A", "O")] + objs * 6 + pool
    for _ in range(700 if tier == "quick" else 8000):
        a = rng.choice(bases)
        b = variant(rng, a)
        cases.append(dict(filter=P1, vars=[("a", a), ("b", b)], kind="variant-cmp"))
        cases.append(dict(filter=P2, vars=[("a", a), ("b", b)], kind="variant-key"))
        cases.append(dict(filter=P5, vars=[("a", a), ("b", b), ("c", rng.choice(pool))], kind="variant-nested"))
    # objects that list the same keys in the same unsorted insertion order with crossing values: values compare in the order of
    # the sorted keys, whatever the insertion order
    keysets = [[S("b"), S("a")], [S("c"), S("a"), S("b")], [S("z"), S("y")], [S("b"), S("a"), S("c")], [I(2), I(1)], [S("k"), NULL], [A(I(1)), A()], [TRUE, FALSE, NULL]]
    for _ in range(150 if tier == "quick" else 2500):
        ks = rng.choice(keysets)
        va = [rng.choice([I(0), I(1), I(2), S("x"), NULL]) for _ in ks]
        vb = [rng.choice([I(0), I(1), I(2), S("x"), NULL]) for _ in ks]
        a, b = O(*zip(ks, va)), O(*zip(ks, vb))
        if rng.random() < 0.3:
            b = O(*reversed(list(zip(ks, vb))))
        cases.append(dict(filter=P1, vars=[("a", a), ("b", b)], kind="obj-order-cmp"))
        cases.append(dict(filter=P2, vars=[("a", a), ("b", b)], kind="obj-order-key"))
        cases.append(dict(filter="[[$a, $b] | sort, min, max] == [[$b, $a] | sort, min, max]", vars=[("a", a), ("b", b)], kind="obj-order-sort"))
    # stability and consistency on arrays longer than any small-array fast path
    classes = [[I(1), F(1.0), B(1), D("1.0"), D("1e0")], [I(0), NEG_ZERO, F(0.0), B(0)], [S("a"), Y("a")], [I(2), F(2.0)],
               [O((S("a"), I(1)), (S("b"), I(2))), O((S("b"), I(2)), (S("a"), I(1))), O((S("b"), F(2.0)), (S("a"), B(1)))],
               [NULL], [A(I(1)), A(F(1.0))], [F(0.5)], [I(-3), F(-3.0)]]
    for _ in range(40 if tier == "quick" else 600):
        k = rng.randint(33, 90)
        arr = A(*[rng.choice(rng.choice(classes)) for _ in range(k)])
        cases.append(dict(filter=rng.choice(["sort", "sort_by(.)", "group_by(.)", "unique", "[min, max]", "sort_by(type)", "unique_by(type)",
                                             "[min_by(type), max_by(type)]", "group_by(tojson|length)", "sort_by(tojson|length)"]),
                          inputs=[arr], kind="large-sort"))
    small = [x for x in pool if not (isinstance(x, list) and x[0] in ("I", "B", "F", "D") and (is_big_int_atom(x)))]
    for _ in range(600 if tier == "quick" else 8000):
        a, b, c = rng.choice(small + trees), rng.choice(small + trees), rng.choice(small + trees)
        cases.append(dict(filter=P3, vars=[("a", a), ("b", b), ("c", c)], kind="triple"))
    for _ in range(100 if tier == "quick" else 1500):
        k = rng.randint(0, 7)
        arr = A(*[rng.choice(small + trees) for _ in range(k)])
        cases.append(dict(filter="[sort, (sort|sort), (sort_by(.)), (unique == (sort|unique)), (group_by(.)|add) == (sort|if length==0 then null else . end), (min == (sort|.[0])), (max == (sort|.[-1]))]", inputs=[arr], kind="sort"))
    return cases


def oracle(c, impl):
    if not (isinstance(impl, list) and impl and impl[0] == "out" and impl[2] == "end" and len(impl[1]) == 1):
        if isinstance(impl, list) and impl and impl[0] in ("panic", "crash"):
            return ("panic", "comparison/lookup panicked: " + sx.dumps(impl)[:200])
        return None
    vs = dict(c.get("vars", []))
    out = impl[1][0]
    if c["kind"] == "variant-cmp":
        lt, le, eq, ne, gt, ge = [x == "true" for x in out[1:]]
        if not (eq and le and ge and not lt and not gt and not ne):
            return ("variant-equal", "equal values in different representations do not compare equal: " + sx.dumps(out))
    if c["kind"] in ("pair-cmp", "tree-cmp"):
        if unsafe_pair(vs["a"], vs["b"]):
            return None
        lt, le, eq, ne, gt, ge = [x == "true" for x in out[1:]]
        if [lt, eq, gt].count(True) != 1:
            return ("trichotomy", "not exactly one of <, ==, > holds: " + sx.dumps(out))
        if le != (lt or eq) or ge != (gt or eq) or ne == eq:
            return ("derived-ops", "<=, >=, != inconsistent with <, ==, >: " + sx.dumps(out))
    if c["kind"] == "obj-order-sort" and out != "true":
        return ("obj-order-sort", "sort/min/max of two objects depend on their order in the array: " + sx.dumps([vs["a"], vs["b"]])[:200])
    if c["kind"] == "obj-order-cmp":
        def key(x):
            if x == "null":
                return (0,)
            if x in ("false", "true"):
                return (1, x == "true")
            if x[0] == "I":
                return (2, int(x[1]))
            if x[0] == "S":
                return (3, x[1])
            if x[0] == "A":
                return (4, tuple(key(y) for y in x[1:]))
            raise ValueError(x)
        ea = sorted(((key(k), key(v)) for k, v in vs["a"][1:]), key=lambda kv: kv[0])
        eb = sorted(((key(k), key(v)) for k, v in vs["b"][1:]), key=lambda kv: kv[0])
        va, vb = [v for _, v in ea], [v for _, v in eb]
        want = [va < vb, va <= vb, va == vb, va != vb, va > vb, va >= vb]
        got = [x == "true" for x in out[1:]]
        if got != want:
            return ("obj-order", "objects with the same keys compare by their values in the order of the sorted keys: %s vs %s gives %s, expected %s" % (
                sx.dumps(vs["a"]), sx.dumps(vs["b"]), sx.dumps(out), want))
    if c["kind"] == "variant-nested":
        want = [["I", "1"], "true", ["I", "0"], ["I", "1"], ["I", "1"], ["I", "2"], None, "true", "true"]
        for i, w in enumerate(want):
            if w is not None and out[1 + i] != w:
                return ("key-interchange:nested%d" % i, "equal values in different representations are not interchangeable (#%d): %s" % (i, sx.dumps(out)))
        if out[7] == "null":
            return ("key-interchange:nested6", "key not found among entries: " + sx.dumps(out))
    if c["kind"] in ("pair-key", "tree-key", "variant-key"):
        a, b = vs["a"], vs["b"]
        if unsafe_pair(a, b):
            return None
        # run-time equality is not known here; use the results' own consistency:
        has, idx, objeq, addlen, mullen, sub, sortsame, uniqlen, grouplen, index, inside, setlen = out[1:]
        equal = (sub == ["A"])          # [$a]-[$b] == []  <=>  $a == $b (by cmp)
        want = dict(has="true" if equal else "false", objeq="true" if equal else "false",
                    addlen=["I", "2"] if equal else ["I", "3"], mullen=["I", "2"] if equal else ["I", "3"],
                    uniqlen=["I", "1"] if equal else ["I", "2"], grouplen=["I", "1"] if equal else ["I", "2"],
                    index=["I", "0"] if equal else ["I", "1"],
                    setlen=["I", "2"] if equal else ["I", "3"], sortsame="true" if equal else None)
        got = dict(has=has, objeq=objeq, addlen=addlen, mullen=mullen, uniqlen=uniqlen, grouplen=grouplen,
                   index=index, setlen=setlen, sortsame=sortsame)
        for k, w in want.items():
            if w is not None and got[k] != w:
                return ("key-interchange:" + k, "values equal=%s but %s gives %s: %s" % (equal, k, sx.dumps(got[k]), sx.dumps(out)))
    if c["kind"] == "triple":
        if unsafe_pair(vs["a"], vs["b"]) or unsafe_pair(vs["b"], vs["c"]) or unsafe_pair(vs["a"], vs["c"]):
            return None
        ab, bc, ac, sortsame, sorted_ok = [x == "true" for x in out[1:]]
        if ab and bc and not ac:
            return ("transitivity", "a<=b, b<=c but not a<=c")
        if not sorted_ok:
            return ("sort-sorted", "sort output is not sorted")
    return None
