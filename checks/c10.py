"""C10: one position model per container (arrays, text strings by characters, byte strings by bytes, objects)."""
import codecs
import itertools
from values import *
from values import from_json
import sx

RULE = ("exhaustive: arrays of length 0-4, text strings of 0-4 characters over an alphabet with 1-4-byte characters and an invalid "
        "byte, byte strings, small objects x positions and bounds in [-6,6] + null + non-integers x update filters with 0/1/2 outputs; "
        "oracle = an independent Python list model (negative positions from the end, clipped bounds, characters by Python's UTF-8 "
        "decoder) evaluated against the implementation; non-trivial = distinct output")
ASSUMPTIONS = ["Python's UTF-8 decoder error spans (maximal subparts) as the independent character segmentation"]
PARTIAL = []

CHARS = [b"a", b"\xc3\xa9", b"\xe2\x82\xac", b"\xf0\x9f\x98\x80", b"\xff", b"b"]


def segments(bs):
    """character chunks of a byte string, each invalid maximal subpart as one chunk
    (Python's UTF-8 decoder and its error spans as the reference)"""
    out = []
    rest = bs
    while rest:
        try:
            s = rest.decode("utf-8")
            out += [ch.encode("utf-8") for ch in s]
            break
        except UnicodeDecodeError as e:
            out += [ch.encode("utf-8") for ch in rest[:e.start].decode("utf-8")]
            out.append(rest[e.start:e.end])
            rest = rest[e.end:]
    return out


def pos_vals():
    ints = list(range(-6, 7))
    return ints


def idx_val(rng, i):
    """a position value in some integer representation"""
    return rng.choice([I(i), B(i)]) if rng.random() < 0.3 else I(i)


def ref_index(seq, i):
    n = len(seq)
    if i < 0:
        i += n
    return seq[i] if 0 <= i < n else None


def ref_slice(seq, i, j):
    return seq[slice(i, j)]


def gen(ctx):
    rng, tier = ctx["rng"], ctx["tier"]
    cases = []
    # containers
    arrays = []
    for n in range(0, 5):
        arrays.append([10 * (k + 1) for k in range(n)])
    texts = [b""]
    for n in range(1, 5):
        for _ in range(6 if tier == "quick" else 30):
            texts.append(b"".join(rng.choice(CHARS) for _ in range(n)))
    texts += [b"\xe2\x82", b"a\xe2\x82b", b"\xf0\x9f\x98", b"\xc3", b"\xed\xa0\x80", b"a\xf0\x9f\x98\x80\xff\xc3\xa9"]
    positions = list(range(-6, 7))
    bounds = positions + [None]
    # reads
    for a in arrays:
        av = from_json(a)
        for i in positions:
            cases.append(dict(filter="[.[$i], has($i), (try nth($i) catch \"E\")]", inputs=[av], vars=[("i", idx_val(rng, i))], kind="arr-index", ref=("arr-index", a, i)))
        for i, j in itertools.product(bounds, repeat=2):
            if tier == "quick" and rng.random() < 0.5:
                continue
            vi = "null" if i is None else idx_val(rng, i)
            vj = "null" if j is None else idx_val(rng, j)
            cases.append(dict(filter="[.[$i:$j], .[{start:$i,end:$j}], (.[$i:$j]|length)]", inputs=[av], vars=[("i", vi), ("j", vj)], kind="arr-slice", ref=("arr-slice", a, i, j)))
        cases.append(dict(filter="[length, keys, [.[]], first, last, (. as [$a,$b] | [$a,$b]), (. as [$a,[$b]] | 1)?]", inputs=[av], kind="arr-misc", ref=("arr-misc", a)))
    for t in texts:
        for mk, kind in ((S, "text"), (Y, "bytes")):
            tv = mk(t)
            for i, j in itertools.product(bounds, repeat=2):
                if rng.random() < (0.85 if tier == "quick" else 0.3):
                    continue
                vi = "null" if i is None else idx_val(rng, i)
                vj = "null" if j is None else idx_val(rng, j)
                cases.append(dict(filter="[.[$i:$j], length, (.[$i:$j] | length)]", inputs=[tv], vars=[("i", vi), ("j", vj)], kind=kind + "-slice", ref=(kind + "-slice", t, i, j)))
            if kind == "bytes":
                for i in positions:
                    cases.append(dict(filter="[.[$i], has($i)]", inputs=[tv], vars=[("i", idx_val(rng, i))], kind="bytes-index", ref=("bytes-index", t, i)))
    # wrong positions
    bad = [F(1.5), S("a"), NULL, TRUE, A(), O(), F(1.0), D("1.0"), B(2 ** 64), B(-2 ** 64), B(2 ** 64 - 1), I(ISIZE_MIN), I(ISIZE_MAX)]
    conts = [from_json([1, 2, 3]), S("abc"), Y("abc"), from_json({"a": 1}), NULL, I(1)]
    for c, p in itertools.product(conts, bad):
        cases.append(dict(filter="[(try .[$i] catch \"E\"), (try .[$i:] catch \"E\"), (try .[:$i] catch \"E\"), (try has($i) catch \"E\"), (try (.[$i] = 1) catch \"E\"), (try (.[$i:] = [9]) catch \"E\"), (.[$i]? // \"none\")]",
                          inputs=[c], vars=[("i", p)], kind="bad-pos", ref=("bad-pos", sx.dumps(c), sx.dumps(p))))
    # integer positions of any magnitude: clipped for slices, outside for indexing
    huge = [2 ** 64, -2 ** 64, 2 ** 64 - 1, 10 ** 30, -10 ** 30, 2 ** 63, -2 ** 63 - 1, ISIZE_MAX, ISIZE_MIN]
    for h in huge:
        hv = I(h) if ISIZE_MIN <= h <= ISIZE_MAX else B(h)
        for cont, kind in ((from_json([1, 2, 3]), "arr"), (S("abc"), "text"), (Y("abc"), "bytes")):
            cases.append(dict(filter="[.[:$i], .[$i:], (try .[$i] catch \"E\"), (try has($i) catch \"E\")]", inputs=[cont], vars=[("i", hv)], kind="huge-pos", ref=("huge-pos", kind, h)))
    # updates
    upd = [("empty", 0), (".+1", 1), ("(.+1, .+2)", 2), ("9", 1)]
    for a in arrays:
        av = from_json(a)
        for i in positions:
            for u, k in upd:
                cases.append(dict(filter="[(try (.[$i] |= %s) catch \"E\"), (try (.[$i] = 7) catch \"E\"), (.[$i]? |= %s)]" % (u, u), inputs=[av], vars=[("i", idx_val(rng, i))], kind="arr-upd", ref=("arr-upd", a, i, u, k)))
        for i, j in itertools.product(bounds, repeat=2):
            if rng.random() < (0.7 if tier == "quick" else 0.2):
                continue
            vi = "null" if i is None else idx_val(rng, i)
            vj = "null" if j is None else idx_val(rng, j)
            for u, k in [("empty", 0), ("map(.+1)", 1), ("([7,8], [9])", 2), ("[]", 1)]:
                cases.append(dict(filter="[(.[$i:$j] |= %s), (.[$i:$j] = [5])]" % u, inputs=[av], vars=[("i", vi), ("j", vj)], kind="arr-slice-upd", ref=("arr-slice-upd", a, i, j, u)))
    for t in texts[:20]:
        for i, j in itertools.product([None, -2, -1, 0, 1, 2, 5], repeat=2):
            vi = "null" if i is None else I(i)
            vj = "null" if j is None else I(j)
            cases.append(dict(filter="[(.[$i:$j] |= \"XY\"), (.[$i:$j] |= empty), (.[$i:$j] |= ascii_upcase)]", inputs=[S(t)], vars=[("i", vi), ("j", vj)], kind="text-slice-upd", ref=("text-slice-upd", t, i, j)))
    # paths of two parts: each part refuses or skips on its own `?` only
    nested = [[10, 20], [30], None]
    for i, j in itertools.product([-4, -3, -1, 0, 1, 2, 3, 5], [-3, -2, -1, 0, 1, 2, 4]):
        for o1, o2 in itertools.product(["", "?"], repeat=2):
            if tier == "quick" and rng.random() < 0.4:
                continue
            cases.append(dict(filter="[(try (.[$i]%s[$j]%s = 7) catch \"E\"), (try (.[$i]%s[$j]%s |= empty) catch \"E\"), (try (.[$i]%s[$j]%s |= (.+1, 0)) catch \"E\")]" % (o1, o2, o1, o2, o1, o2),
                              inputs=[from_json(nested)], vars=[("i", idx_val(rng, i)), ("j", idx_val(rng, j))], kind="nested-upd", ref=("nested-upd", nested, i, j, o1, o2)))
    # destructuring reads what indexing reads, whatever the position of a computed key in the pattern and wherever its key comes from
    pkeys = [S("a"), S("b"), I(1), NULL, A(I(7)), FALSE, S("")]
    for _ in range(120 if tier == "quick" else 2500):
        ks = rng.sample(pkeys, rng.randint(1, 5))
        o = O(*[(k, I(n + 1)) for n, k in enumerate(ks)])
        m = rng.randint(2, 3)
        ents, reads, vs = [], [], []
        for e in range(m):
            v = "$v%d" % e
            r = rng.random()
            if r < 0.3:
                ents.append("a: %s" % v); reads.append(".a")
            elif r < 0.4:
                ents.append("\"b\": %s" % v); reads.append(".b")
            elif r < 0.7:
                ents.append("($k): %s" % v); reads.append(".[$k]")
            elif r < 0.85:
                ents.append("($l): %s" % v); reads.append(".[$l]")
            else:
                ents.append("(g): %s" % v); reads.append(".[g]")
            vs.append(v)
        pat = "{%s}" % ", ".join(ents)
        form = rng.choice(["def g: $l; [(. as %s | [%s]), [%s]]", "def g: $l; def h(g): [(. as %s | [%s]), [%s]]; h($k)", "def g: $l; [([., .] as [$z, %s] | [%s]), [%s]]",
                           "def g: $l; [(reduce . as %s (0; [%s])), [%s]]", "def g: $l; [(foreach . as %s (0; 1; [%s])), [%s]]"])
        cases.append(dict(filter=form % (pat, ", ".join(vs), ", ".join(reads)), inputs=[o], vars=[("k", rng.choice(pkeys)), ("l", rng.choice(pkeys))], kind="pattern-key", ref=("pattern-key",)))
    # objects: arbitrary keys, order of untouched keys, deletion
    keys = [S("a"), S("b"), I(1), F(1.5), NULL, A(I(1)), O((S("k"), I(1))), TRUE, S("")]
    for _ in range(150 if tier == "quick" else 2000):
        ks = rng.sample(keys, rng.randint(1, 5))
        o = O(*[(k, I(n)) for n, k in enumerate(ks)])
        k = rng.choice(keys)
        u, cnt = rng.choice(upd)
        cases.append(dict(filter="[.[$k], has($k), (.[$k] |= %s), (.[$k] = 7), (del(.[$k]) | length), keys_unsorted, length, (to_entries | map(.key)), ([.[]] == (to_entries | map(.value)))]" % u,
                          inputs=[o], vars=[("k", k)], kind="obj", ref=("obj", [sx.dumps(x) for x in ks], sx.dumps(k), cnt)))
    # equal numbers in different representations are one key: lookup, has, update and construction go by ==
    groups = [[I(1), F(1.0), B(1), D("1.0"), D("1e0"), D("1.00"), D("0.1e1")], [F(1.5), D("1.5"), D("1.50"), D("15e-1")],
              [I(0), F(0.0), F(-0.0), D("0.0"), D("-0"), D("0e5")], [I(100), F(100.0), D("100"), D("1e2"), D("100.0"), D("1.0e2")],
              [I(-3), F(-3.0), D("-3.0"), D("-30e-1")], [S("1")], [S("a")], [NULL], [A(I(1))], [A(F(1.0))], [A(D("1.0"))], [O((D("1.0"), I(1)))], [O((I(1), I(1)))]]
    for _ in range(400 if tier == "quick" else 6000):
        gs = rng.sample(groups, rng.randint(2, 5))
        o = O(*[(rng.choice(g), I(n)) for n, g in enumerate(gs)])
        k = rng.choice(rng.choice(gs if rng.random() < 0.8 else groups))
        l = rng.choice(rng.choice(groups))
        cases.append(dict(filter="(to_entries | map(select(.key == $k))) as $e | [.[$k] == (if ($e | length) > 0 then $e[0].value else null end), has($k) == (($e | length) > 0), "
                                 "((.[$k] = 7) | [length, .[$k]]) == [length + (if ($e | length) > 0 then 0 else 1 end), 7], (del(.[$k]) | length) == length - ($e | length), "
                                 "({($k): 1, ($l): 2} | [length, .[$k], .[$l]]) == (if $k == $l then [1, 2, 2] else [2, 1, 2] end), ([.[keys_unsorted[]]] == [.[]]), "
                                 "((.[$k] |= 8) | keys_unsorted | length) == length + (if ($e | length) > 0 then 0 else 1 end), ($e | length) <= 1, "
                                 "([keys_unsorted[] as $a | keys_unsorted[] as $b | select($a == $b)] | length) == length, (. as $o | [$k] | all(.[]; in($o) == (($e | length) > 0)))]",
                          inputs=[o], vars=[("k", k), ("l", l)], kind="obj-numkey", ref=("obj-numkey", sx.dumps(o), sx.dumps(k), sx.dumps(l))))
    return cases


def oracle(c, impl, model=None):
    if isinstance(impl, list) and impl and impl[0] in ("panic", "crash"):
        return ("panic:" + c["kind"], "panicked: " + sx.dumps(impl)[:200])
    if not (isinstance(impl, list) and impl and impl[0] == "out" and impl[2] == "end" and len(impl[1]) == 1):
        if c["kind"] in ("arr-index", "arr-slice", "text-slice", "bytes-slice", "bytes-index", "arr-upd", "huge-pos", "obj-numkey") and isinstance(impl, list) and impl[0] == "out":
            return ("unexpected-error:" + c["kind"], "an in-model read/update failed: " + sx.dumps(impl)[:300])
        return None
    out = impl[1][0][1:]
    r = c["ref"]
    J = from_json
    if r[0] == "arr-index":
        a, i = r[1], r[2]
        want = ref_index(a, i)
        inside = want is not None
        if out[0] != J(want) or out[1] != J(inside):
            return ("arr-index", "array %s position %d: got %s" % (a, i, sx.dumps(impl[1][0])))
    if r[0] == "arr-slice":
        a, i, j = r[1:]
        want = ref_slice(a, i, j)
        if out[0] != J(want) or out[1] != J(want) or out[2] != J(len(want)):
            return ("arr-slice", "array %s slice %s:%s: got %s" % (a, i, j, sx.dumps(impl[1][0])))
    if r[0] == "arr-misc":
        a = r[1]
        if out[0] != J(len(a)) or out[1] != J(list(range(len(a)))) or out[2] != J(a) or out[3] != J(a[0] if a else None) or out[4] != J(a[-1] if a else None):
            return ("arr-misc", "length/keys/iteration/first/last disagree with the list model: " + sx.dumps(impl[1][0]))
        if out[5] != J([a[0] if len(a) > 0 else None, a[1] if len(a) > 1 else None]):
            return ("pattern", "destructuring does not use indexing: " + sx.dumps(impl[1][0]))
    if r[0] in ("text-slice", "bytes-slice"):
        t, i, j = r[1:]
        segs = segments(t) if r[0] == "text-slice" else [bytes([b]) for b in t]
        want = b"".join(ref_slice(segs, i, j))
        tag = "S" if r[0] == "text-slice" else "Y"
        if out[0] != [tag, want] or out[1] != J(len(segs)) or out[2] != J(len(ref_slice(segs, i, j))):
            return (r[0], "%r slice %s:%s: got %s, want %r" % (t, i, j, sx.dumps(impl[1][0]), want))
    if r[0] == "bytes-index":
        t, i = r[1], r[2]
        want = ref_index(list(t), i)
        if out[0] != J(want) or out[1] != J(want is not None):
            return ("bytes-index", "%r position %d: got %s" % (t, i, sx.dumps(impl[1][0])))
    if r[0] == "huge-pos":
        kind, h = r[1], r[2]
        whole = {"arr": J([1, 2, 3]), "text": ["S", b"abc"], "bytes": ["Y", b"abc"]}[kind]
        none = {"arr": J([]), "text": ["S", b""], "bytes": ["Y", b""]}[kind]
        want_upto, want_from = (whole, none) if h > 0 else (none, whole)
        if out[0] != want_upto or out[1] != want_from:
            return ("huge-bound", "slice bound %d is not clipped: %s" % (h, sx.dumps(impl[1][0])))
        if kind != "text" and (out[2] != "null" or out[3] != "false"):
            return ("huge-index", "position %d does not read outside: %s" % (h, sx.dumps(impl[1][0])))
    if r[0] == "arr-upd":
        a, i, u, k = r[1:]
        n = len(a)
        ii = i + n if i < 0 else i
        E = ["S", b"E"]
        if not (0 <= ii < n):
            if out[0] != E or out[1] != E or out[2] != J(a):
                return ("arr-upd-oob", "out-of-range update of %s at %d not refused / not identity under ?: %s" % (a, i, sx.dumps(impl[1][0])))
        else:
            if k == 0:
                w0 = a[:ii] + a[ii + 1:]
            elif u == "9":
                w0 = a[:ii] + [9] + a[ii + 1:]
            else:
                w0 = a[:ii] + [a[ii] + 1] + a[ii + 1:]
            w1 = a[:ii] + [7] + a[ii + 1:]
            if out[0] != J(w0) or out[1] != J(w1) or out[2] != J(w0):
                return ("arr-upd", "update of %s at %d with %s: %s" % (a, i, u, sx.dumps(impl[1][0])))
    if r[0] == "arr-slice-upd":
        a, i, j, u = r[1:]
        s = slice(i, j).indices(len(a))
        start, stop = s[0], max(s[0], s[1])
        mid = a[start:stop]
        repl = dict([("empty", []), ("map(.+1)", [x + 1 for x in mid]), ("([7,8], [9])", [7, 8]), ("[]", [])])[u]
        w0 = a[:start] + repl + a[stop:]
        w1 = a[:start] + [5] + a[stop:]
        if out[0] != J(w0) or out[1] != J(w1):
            return ("arr-slice-upd", "slice update %s[%s:%s] |= %s: %s, want %s" % (a, i, j, u, sx.dumps(impl[1][0]), w0))
    if r[0] == "text-slice-upd":
        t, i, j = r[1:]
        segs = segments(t)
        s = slice(i, j).indices(len(segs))
        start, stop = s[0], max(s[0], s[1])
        pre, mid, post = b"".join(segs[:start]), b"".join(segs[start:stop]), b"".join(segs[stop:])
        up = bytes(b - 32 if 97 <= b <= 122 else b for b in mid)
        want = [["S", pre + b"XY" + post], ["S", pre + post], ["S", pre + up + post]]
        if out[:3] != want:
            return ("text-slice-upd", "text slice update %r[%s:%s]: %s" % (t, i, j, sx.dumps(impl[1][0])))
    if r[0] == "pattern-key":
        if out[0] != out[1]:
            return ("pattern-key", "destructuring reads %s, indexing with the same keys reads %s" % (sx.dumps(out[0]), sx.dumps(out[1])))
    if r[0] == "nested-upd":
        a, i, j, o1, o2 = r[1:]
        E = ["S", b"E"]
        n = len(a)
        ii = i + n if i < 0 else i

        def want(fn):
            if not (0 <= ii < n):
                return J(a) if o1 else E
            inner = a[ii]
            if inner is None:
                return J(a) if o2 else E
            jj = j + len(inner) if j < 0 else j
            if not (0 <= jj < len(inner)):
                return J(a) if o2 else E
            return J(a[:ii] + [fn(inner, jj)] + a[ii + 1:])
        w = [want(lambda l, q: l[:q] + [7] + l[q + 1:]), want(lambda l, q: l[:q] + l[q + 1:]), want(lambda l, q: l[:q] + [l[q] + 1] + l[q + 1:])]
        if out[:3] != w:
            return ("nested-upd", "update of %s at [%d]%s[%d]%s: %s, the position model says %s" % (a, i, o1, j, o2, sx.dumps(impl[1][0]), sx.dumps(["A"] + w)))
    if r[0] == "obj-numkey":
        names = ["lookup finds the equal key", "has", "assignment", "del", "construction", "iteration by keys", "update", "one entry per key", "keys pairwise distinct", "in"]
        for i, n in enumerate(names):
            if out[i] != "true":
                return ("obj-numkey:" + n, "%s: object %s, key %s / %s" % (n, r[1], r[2], r[3]))
    if r[0] == "obj":
        ks, k, cnt = r[1], r[2], r[3]
        present = k in ks
        n = len(ks)
        if out[1] != J(present):
            return ("obj-has", "has disagrees with key presence: " + sx.dumps(impl[1][0]))
        if present and out[0] != J(ks.index(k)):
            return ("obj-index", "object lookup: " + sx.dumps(impl[1][0]))
        if not present and out[0] != "null":
            return ("obj-index", "missing key does not read null: " + sx.dumps(impl[1][0]))
        if out[4] != J(n - 1 if present else n):
            return ("obj-del", "del changed the wrong number of entries: " + sx.dumps(impl[1][0]))
        if [sx.dumps(x) for x in out[5][1:]] != ks or out[6] != J(n) or [sx.dumps(x) for x in out[7][1:]] != ks or out[8] != "true":
            return ("obj-iter", "keys_unsorted / length / to_entries / .[] disagree: " + sx.dumps(impl[1][0]))
        # non-deleting update keeps order of all keys; .[k] = 7 appends a missing key
        set_keys = [sx.dumps(kv[0]) for kv in out[3][1:]]
        if set_keys != (ks if present else ks + [k]):
            return ("obj-order", "assignment changed the order of untouched keys: " + sx.dumps(impl[1][0]))
        if cnt >= 1:
            upd_keys = [sx.dumps(kv[0]) for kv in out[2][1:]]
            if upd_keys != (ks if present else ks + [k]):
                return ("obj-order", "update changed the order of untouched keys: " + sx.dumps(impl[1][0]))
        else:
            upd_keys = sorted(sx.dumps(kv[0]) for kv in out[2][1:])
            if upd_keys != sorted(x for x in ks if x != k):
                return ("obj-del-upd", "|= empty did not remove exactly the key: " + sx.dumps(impl[1][0]))
    return None
