"""C19: a compiled filter is immutable shared data: concurrent runs equal isolated runs."""
import os
import re
import core
import jq
import sx
from values import *
from programs import Gen, Scope
from checks import c01

RULE = ("programs of the C01 generator (plus recursion, try/label, paths, updates, sort/group, regex and format filters) in batches: every "
        "program is compiled once and run alone twice (determinism); then T threads run all programs of the batch R times, in different "
        "orders, on the shared compiled filters, while one more thread keeps compiling the same programs; every result is compared with "
        "the isolated one; two builds: values built in each thread (Rc) and, with the thread-safe representation (feature sync, Arc), the "
        "same input values shared by all threads; the static facts (Filter and Lut are Send + Sync; Val is with sync) are compile-time "
        "assertions of the harness; source audit: no static or thread-local state in the library crates; non-trivial = distinct program")
ASSUMPTIONS = ["the interleavings are those the scheduler produces on 16 cores; no sanitizer (a data race that never changes a result is not seen)"]
PARTIAL = ["the theorem is about a model of threads that share only the immutable compiled filter: whatever the interleaving, every thread "
           "obtains what it obtains alone; that the Rust code shares nothing else (no interior mutability behind Sync) is the static fact "
           "plus the audit plus the observation, not a theorem"]

EXTRA = ["0, (label $a | 1, (label $b | 2, break $a, 3), 4)", "[label $a | (1, 2) | label $b | (., break $b, 9), (if . == 2 then break $a else . end)]", "[limit(2; label $x | (1, 2, 3) | first(., break $x))]",
         "label $a | first(label $b | (1, break $a)), 2", "[.[]? | label $l | (., break $l)] | length", "first(label $a | label $b | label $c | (1, break $a))", "[label $o | range(5) | label $i | if . == 3 then break $o else ., break $i end]",
         "del(.[1:3])", ".[1:] |= empty", "(.[:2]) |= empty", "del(.[0])", "del(.a)", ".[]? |= empty", "del(.. | select(. == null))", ".[0] = 1", ". + [1]?", ".a += 1", "sort?", "reverse?", "setpath([\"a\"]; 1)?",
         "delpaths([[\"a\"], [0]])?", "map_values(empty)?", "walk(.)", ".[1:2] = [9, 9, 9]", ".[2:4] |= map(. + 1)?", "to_entries?", "with_entries(.value |= .)?", ".. |= .", "[.[1:3], del(.[1:3]), .]", "(.a, .b) |= empty",
         "def f: if . < 300 then . + 1 | f else . end; 0 | f", "[limit(50; repeat(1))] | add", "[range(200)] | map(. * 2) | add", "[.[]? | tostring] | sort | join(\",\")", "try error(\"x\") catch .",
         "label $f | (1, 2, break $f, 3)", "[paths]", "(.. | numbers) |= . + 1", "[.[]?] | group_by(type) | map(length)", "tojson | fromjson", "[splits(\"a\")?]", "@base64 \"x\\(.)\" | @base64d",
         "reduce range(100) as $x (0; . + $x)", "[foreach range(10) as $x (0; . + $x)]", "to_entries? // .", "[.[]? | select(type == \"number\")] | unique", "path(..)", "[test(\"a\"; \"g\")?]",
         "{a: .} | .a |= [., .]", "[., .] | flatten | length", "def g(f): [f, f]; g(., 1)", ". as [$a] ?// $a | $a" if False else ". as $a | [$a, $a]", "[.[]?] | sort_by(tojson) | reverse", "ascii_downcase? // null",
         "[ltrimstr(\"a\"), rtrimstr(\"b\")]", "[limit(3; .. )]", "getpath([\"a\", 0])?", "tostring | explode | implode", "(tojson | length) as $n | [range($n)] | length", "now | type", "input? // \"none\""]


# values are immutable shared data as well: what a filter yields must not depend on who else holds its input or its operands
SHARE = ["@F", ". as $keep | @F", "[[@F], [@F]] | .[1][]", "[@F] as $r | [$r, [@F]] | .[1][]", "[., .] | .[1] | @F", "{a: ., b: .} | .b | @F"]
ARITH = [".[0] - (.[1] + 0)", "(.[0] + 0) - .[1]", ".[0] + (.[1] * 1)", "(.[0] * 1) * (.[1] + 0)", ".[0] - .[1]", "(.[0] + 0) - (.[1] + 0)", "-(.[0] + 0)",
         "(.[0] + 1) % (.[1] + 0)", "[.[] | . + 1] | .[0] - .[1]", ".[0] as $a | .[1] as $b | $a - ($b + 0)", "(.[1] + 0) as $b | .[0] - $b",
         ".[0] |= . + 1", ".[1] -= 1", "[.[0], .[0]] | .[0] += 1", ". + [.[0] + 0] | .[2] - .[0]", "(.[2]? // \"ab\") + \"c\"", "map(tostring) | .[0] + .[1]",
         ".[0:1] + .[1:]", "(.[0:1] + [0]) | .[1] = 5", "to_entries | map(.value) | .[0] - (.[1] + 0)"]


def gen(ctx):
    rng, tier = ctx["rng"], ctx["tier"]
    g = Gen(rng, max_depth=4)
    big = [from_json([10 ** 20, 10 ** 20 + 1]), from_json([2 ** 64, 2 ** 63]), from_json([-10 ** 25, 3]), from_json([2 ** 70 + 1, 2 ** 70]), from_json([5, 7]),
           A(B(3), B(5)), A(B(10 ** 30), I(1)), from_json([9223372036854775807, 9223372036854775807])]
    cases = []
    for f in ARITH:
        for inp in big:
            cases.append(dict(filter="[" + ", ".join("[%s]" % w.replace("@F", "(" + f + ")") for w in SHARE) + "]", inputs=[inp], kind="sharing-arith"))
    inputs = [from_json(__import__("json").loads(s)) for s in c01.INPUTS_SRC]
    for _ in range(150 if tier == "quick" else 3000):
        f = g.term(Scope(), rng.choice([2, 3, 4]))
        if "input" in f or "now" in f or "$__loc__" in f:
            continue
        cases.append(dict(filter="[" + ", ".join("[%s]" % w.replace("@F", "(" + f + ")") for w in SHARE[:4]) + "]", inputs=[rng.choice(inputs + big)], kind="sharing-random"))
    return cases


def oracle(c, impl, model=None):
    if isinstance(impl, list) and impl and impl[0] in ("panic", "crash"):
        return ("panic:" + c["kind"], "panicked: " + sx.dumps(impl)[:200])
    if not (isinstance(impl, list) and impl and impl[0] == "out" and impl[2] == "end" and len(impl[1]) == 1):
        return None
    out = impl[1][0]
    if any(x != out[1] for x in out[2:]):
        return ("sharing", "the outputs of a filter depend on who else holds its input or operands: %s gives %s" % (c["filter"][:200], sx.dumps(out)[:300]))
    return None


def custom(ctx):
    rng, tier = ctx["rng"], ctx["tier"]
    stats = {}
    viol = []
    distinct = set()
    # the second harness: thread-safe values
    sync_dir = os.path.join(core.HARNESS, "target-sync")
    p = core.sh(["cargo", "build", "--offline", "--quiet", "--features", "sync", "--target-dir", sync_dir], cwd=core.HARNESS, check=False, timeout=3000)
    if p.returncode != 0:
        viol.append(dict(key="static-facts", what="the harness with thread-safe values (feature sync) and the Send + Sync assertions no longer builds: %s" % p.stdout[-1500:],
                         case=dict(filter="(build)", kind="static"), impl=None, noinput=True))
    jaqh_sync = os.path.join(sync_dir, "debug", "jaqh")
    g = Gen(rng, max_depth=5)
    inputs = [from_json(__import__("json").loads(s)) for s in c01.INPUTS_SRC] + [from_json([0, 1, 2, 3, 4, 5]), from_json({"a": [1, None, 2], "b": {"a": 1}}), from_json([[1, 2], [3], None])]
    n = 160 if tier == "quick" else 4000
    progs = [g.term(Scope(), rng.choice([2, 3, 4, 5])) for _ in range(n)] + EXTRA
    T, R = (8, 3) if tier == "quick" else (16, 6)
    batches = []
    bsize = 16
    rng.shuffle(progs)
    for i in range(0, len(progs), bsize):
        b = [[p.encode(), [], [rng.choice(inputs), rng.choice(inputs)]] for p in progs[i:i + bsize]]
        batches.append(b)
    cases = [["b%d" % i, "threads", b, str(T), str(R), "24"] for i, b in enumerate(batches)]
    for which, binary in (("own-values", core.JAQH), ("shared-values", jaqh_sync)):
        if not os.path.exists(binary):
            continue
        res = core.run_cases(binary, cases, per_case_timeout=120.0, shards=4)
        for i, b in enumerate(batches):
            r = res.get("b%d" % i)
            k = r[0] if isinstance(r, list) and r else "none"
            stats["%s:%s" % (which, k)] = stats.get("%s:%s" % (which, k), 0) + 1
            for p in b:
                distinct.add(p[0])
            if k == "same":
                stats["programs_run_" + which] = stats.get("programs_run_" + which, 0) + int(r[1])
                stats["programs_rejected"] = stats.get("programs_rejected", 0) + int(r[2])
            elif k == "differ":
                viol.append(dict(key="concurrent:" + which, what="%s (%s): the filter %r yields %r alone and %r in a concurrent run" % (which, r[1], r[2][:300], r[3][:200], r[4][:200]),
                                 case=dict(filter=r[2].decode("utf-8", "replace"), kind="threads", batch=[q[0].decode("utf-8", "replace") for q in b]), impl=r))
            else:
                viol.append(dict(key="concurrent-crash:" + which, what="%s: the batch ends in %s" % (which, sx.dumps(r)[:300]),
                                 case=dict(filter="(batch)", kind="threads", batch=[q[0].decode("utf-8", "replace") for q in b]), impl=r))
    # source audit: global mutable state in the library crates
    pat = re.compile(r"^\s*(pub(\([a-z]+\))?\s+)?static\s|thread_local!|lazy_static!|OnceLock|OnceCell|LazyLock|LazyCell|static\s+mut")
    found = []
    for crate in ["jaq-core", "jaq-std", "jaq-json", "jaq-fmts", "jaq-all"]:
        for root, _, files in os.walk(os.path.join("/repo", crate, "src")):
            for f in files:
                if f.endswith(".rs"):
                    for ln, line in enumerate(open(os.path.join(root, f), errors="replace"), 1):
                        if pat.search(line) and not line.strip().startswith("//"):
                            found.append("%s:%d: %s" % (os.path.join(root, f), ln, line.strip()[:120]))
    stats["statics_in_library_crates"] = len(found)
    if found:
        viol.append(dict(key="global-state", what="global or thread-local state in the library crates (a compiled filter and its runs must share nothing else): %s" % found[:5],
                         case=dict(filter="(source audit)", kind="audit"), impl=None, noinput=True))
    return dict(stats=stats, evaluations=len(cases) * 2 * T * R * bsize, distinct=distinct, violations=viol, samples=[dict(batch0=[q[0].decode("utf-8", "replace")[:100] for q in batches[0][:4]])],
                coverage=dict(threads=T, repetitions=R, batches=len(batches), programs=len(progs)))
