"""C20: date and time filters agree with the Gregorian calendar and invert each other."""
import datetime
import math
import struct
from values import *
from values import from_json
import sx

RULE = ("integer epochs from an edge set (range limits of years -9999..9999, leap days, year/century boundaries, negative times, "
        "+-2^31, +-2^53, +-2^63 and neighbours) and random ones; fractional epochs; broken-down arrays over edge field values; "
        "oracle: Python's datetime (independent proleptic Gregorian calendar) for years 1..9999 and an era-shifted comparison below, "
        "round trips gmtime|mktime, todate|fromdate, strftime|strptime|mktime; rejection (never wrap/clamp) outside the range, for "
        "non-finite/non-numeric inputs and malformed arrays; implementation vs Coq model (Std/Time.v) for integer epochs; "
        "non-trivial = distinct output")
ASSUMPTIONS = ["Python's datetime as the independent calendar; jiff (the time library) is modelled by the era-based algorithms"]
PARTIAL = ["fractional epochs (microsecond round trip) and strftime/strptime formats are checked by oracle only"]

EPOCH0 = datetime.datetime(1970, 1, 1)
TS_MIN, TS_MAX = -377705023201, 253402207200


def edge_epochs():
    e = [0, 1, -1, 59, 60, 86399, 86400, -86400, -86401, 951782400, 951868800, 951782399, 946684800, 946684799, 4102444800, 4107542400, -2208988800,
         68169600, 1709164800, 1709251199, 1709251200, 2 ** 31 - 1, 2 ** 31, -2 ** 31, -2 ** 31 - 1, 2 ** 32, 2 ** 53, -2 ** 53, TS_MAX, TS_MAX + 1, TS_MAX - 1,
         TS_MIN, TS_MIN - 1, TS_MIN + 1, 253402300799, 253402300800, -62135596800, -62135596801, -62167219200, 10 ** 13, -10 ** 13, 9223372036854, 9223372036855,
         -9223372036855, ISIZE_MAX, ISIZE_MIN, 2 ** 63, 10 ** 30, -12219292800, -11644473600, 13591152000]
    # every first/last day of month around leap years and century years
    for y in (1600, 1700, 1900, 2000, 2024, 2100, 2400, 1, 4, 100, 400, 9998):
        for m in range(1, 13):
            try:
                d = datetime.datetime(y, m, 1)
                t = int((d - EPOCH0).total_seconds())
                e += [t, t - 1]
            except Exception:
                pass
    return e


def gen(ctx):
    rng, tier = ctx["rng"], ctx["tier"]
    cases = []
    epochs = edge_epochs()
    for _ in range(400 if tier == "quick" else 6000):
        epochs.append(rng.randint(TS_MIN - 1000, TS_MAX + 1000))
        epochs.append(rng.randint(-2 ** 33, 2 ** 33))
    for t in epochs:
        v = I(t) if ISIZE_MIN <= t <= ISIZE_MAX else B(t)
        if rng.random() < 0.2:
            v = B(t)
        cases.append(dict(filter="[(try gmtime catch \"E\"), (try (gmtime | mktime) catch \"E\"), (try todate catch \"E\"), (try (todate | fromdate) catch \"E\"), "
                                 "(try (strftime(\"%Y-%m-%dT%H:%M:%SZ\") | strptime(\"%Y-%m-%dT%H:%M:%SZ\") | mktime) catch \"E\"), (try strftime(\"%j %u %A %B\") catch \"E\")]",
                          inputs=[v], kind="epoch", t=t))
        # the modelled part alone, so that implementation and Coq model are compared
        cases.append(dict(filter="[(try gmtime catch \"E\"), (try (gmtime | mktime) catch \"E\")]", inputs=[v], kind="epoch-model", t=t))
    # fractional epochs
    fr = [0.5, -0.5, 1.25, -1.5, -1.25, -86400.0, -86399.5, -0.25, -1e9 - 0.125, 1e9 + 0.125, -2.5e-7, 2.5e-7, 1e-6, -1e-6, 1700000000.123456, -1700000000.5, 0.999999, 86399.999999, 253402207199.5, 1e300, -1e300, 2.0 ** 62, 1e15, 1.0, -0.0]
    for _ in range(150 if tier == "quick" else 3000):
        fr.append(round(rng.uniform(-4e9, 4e9), rng.choice([1, 3, 6])))
    for f in fr:
        cases.append(dict(filter="[(try gmtime catch \"E\"), (try (gmtime | mktime) catch \"E\"), (try todate catch \"E\"), (try (todate | fromdate) catch \"E\")]",
                          inputs=[F(f)], kind="frac", f=f))
    # non-finite, non-numeric
    for v in [NAN, POS_INF, NEG_INF, NULL, S("2000"), A(), O(), TRUE, D("1e400")]:
        cases.append(dict(filter="[(try gmtime catch \"E\"), (try todate catch \"E\"), (try strftime(\"%Y\") catch \"E\"), (try mktime catch \"E\")]", inputs=[v], kind="bad-input"))
    # broken-down arrays
    years = [1970, 2000, 2024, 2023, 1900, 0, -1, -9999, 9999, 10000, -10000, 32767, 32768, -32769, 99999999999]
    months = [0, 1, 11, 12, -1, 126, 127, 128, -128, -129]
    days = [1, 28, 29, 30, 31, 32, 0, -1, 127, 128]
    hms = [0, 23, 24, 59, 60, -1, 127, 128, 255, 256]
    for _ in range(500 if tier == "quick" else 8000):
        arr = [rng.choice(years), rng.choice(months), rng.choice(days), rng.choice(hms[:5] + [rng.choice(hms)]), rng.choice(hms[:5] + [rng.choice(hms)]),
               rng.choice([0, 59, 60, 30.5, -1, 61, 1e30, -1e30, 59.999999, 128, 255.5])]
        k = rng.random()
        a = [from_json(x) for x in arr]
        if k < 0.1:
            a = a[:rng.randint(0, 5)]
        elif k < 0.15:
            a[rng.randint(0, 5)] = rng.choice([NULL, S("1"), NAN, F(1.5), B(2 ** 70), POS_INF])
        elif k < 0.5:
            a += [I(0), I(0)]
        cases.append(dict(filter="[(try mktime catch \"E\"), (try (mktime | gmtime) catch \"E\"), (try (mktime | todate) catch \"E\")]", inputs=[["A"] + a], kind="array", arr=arr if k >= 0.15 else None))
        cases.append(dict(filter="[(try mktime catch \"E\"), (try (mktime | gmtime) catch \"E\")]", inputs=[["A"] + a], kind="array-model"))
    # RFC 3339 texts incl. offsets
    texts = ["1970-01-01T00:00:00Z", "2024-02-29T23:59:59Z", "2024-02-29T23:59:59+00:00", "1970-01-01T01:00:00+01:00", "1969-12-31T23:00:00-01:00", "2000-01-01T00:00:00.5Z",
             "2023-02-29T00:00:00Z", "2024-13-01T00:00:00Z", "2024-01-01T24:00:00Z", "2024-01-01", "2024-01-01T00:00:00", "9999-12-30T22:00:00Z", "9999-12-31T23:59:59Z",
             "-009999-01-02T01:59:59Z", "0000-01-01T00:00:00Z", "2024-06-30T23:59:60Z", "2024-01-01t00:00:00z", "2024-01-01 00:00:00Z", "", "x", "2024-01-01T00:00:00+23:59", "2024-01-01T00:00:00.123456789Z"]
    for s in texts:
        cases.append(dict(filter="[(try fromdate catch \"E\"), (try (fromdate | todate) catch \"E\")]", inputs=[S(s)], kind="text", s=s))
    return cases


def py_gmtime(t):
    """independent: Python's proleptic Gregorian calendar; shifts whole 400-year eras to reach years outside 1..9999"""
    shift = 0
    tt = t
    era = 146097 * 86400
    while tt < -62135596800:     # before 0001-01-01
        tt += era
        shift -= 400
    while tt > 253402300799 - 0:
        tt -= era
        shift += 400
    dt = EPOCH0 + datetime.timedelta(seconds=tt)
    wd = (dt.weekday() + 1) % 7
    yday = dt.timetuple().tm_yday - 1
    return [dt.year + shift, dt.month - 1, dt.day, dt.hour, dt.minute, dt.second, wd, yday]


E = ["S", b"E"]


def oracle(c, impl, model=None):
    if isinstance(impl, list) and impl and impl[0] in ("panic", "crash"):
        return ("panic:" + c["kind"], "time filter panicked on %s: %s" % (sx.dumps(c["inputs"][0])[:100], sx.dumps(impl)[:150]))
    if not (isinstance(impl, list) and impl and impl[0] == "out" and impl[2] == "end" and len(impl[1]) == 1):
        return None
    out = impl[1][0][1:]
    k = c["kind"]
    if k == "epoch":
        t = c["t"]
        in_range = TS_MIN <= t <= TS_MAX
        if not in_range:
            if out[0] != E or out[2] != E:
                return ("out-of-range", "epoch %d is beyond the representable range but is answered: %s" % (t, sx.dumps(impl[1][0])[:200]))
            return None
        want = py_gmtime(t)
        if out[0] != from_json(want):
            return ("gmtime", "gmtime of %d: %s, the calendar says %s" % (t, sx.dumps(out[0]), want))
        if out[1] != from_json(t):
            return ("gmtime-mktime", "gmtime | mktime of %d gives %s" % (t, sx.dumps(out[1])))
        if out[3] != from_json(t):
            return ("todate-fromdate", "todate | fromdate of %d gives %s (todate: %s)" % (t, sx.dumps(out[3]), sx.dumps(out[2])))
        if out[4] != from_json(t) and 0 <= want[0] <= 9999:
            return ("strftime-strptime", "strftime | strptime | mktime of %d gives %s" % (t, sx.dumps(out[4])))
        y, mo, d, h, mi, s = want[:6]
        if 0 <= y <= 9999:
            iso = "%04d-%02d-%02dT%02d:%02d:%02dZ" % (y, mo + 1, d, h, mi, s)
            if out[2] != ["S", iso.encode()]:
                return ("todate-text", "todate of %d: %s, expected %s" % (t, sx.dumps(out[2]), iso))
    if k == "frac":
        f = c["f"]
        if abs(f) > 3e11:
            if out[0] != E or out[2] != E:
                return ("out-of-range", "epoch %r is beyond the representable range but is answered: %s" % (f, sx.dumps(impl[1][0])[:200]))
            return None
        if out[0] == E or out[1] == E:
            return ("frac-rejected", "fractional epoch %r rejected: %s" % (f, sx.dumps(impl[1][0])[:200]))
        back = out[1]
        bv = None
        if isinstance(back, list) and back[0] == "F":
            bv = struct.unpack(">d", bytes.fromhex(back[1]))[0]
        elif isinstance(back, list) and back[0] in ("I", "B"):
            bv = float(int(back[1]))
        # the time is kept to the nearest microsecond (half away from zero, as f64::round on f * 1e6)
        x = f * 1e6
        m = int(math.copysign(math.floor(abs(x) + 0.5), x))
        ev = m / 1e6
        tol = 2 * math.ulp(ev) if ev else 0.0
        if bv is None or abs(bv - ev) > tol:
            return ("frac-roundtrip", "gmtime | mktime of %r gives %s; the nearest microsecond is %r" % (f, sx.dumps(back), ev))
        if out[3] != E:
            b2 = out[3]
            v2 = struct.unpack(">d", bytes.fromhex(b2[1]))[0] if b2[0] == "F" else float(int(b2[1])) if b2[0] in ("I", "B") else None
            if v2 is None or abs(v2 - ev) > tol:
                return ("frac-todate", "todate | fromdate of %r gives %s; the nearest microsecond is %r" % (f, sx.dumps(b2), ev))
    if k == "bad-input":
        v = c["inputs"][0]
        for i, x in enumerate(out):
            if x != E and not (i == 3 and False):
                return ("bad-input-accepted", "non-finite / non-numeric input %s is answered by filter #%d: %s" % (sx.dumps(v), i, sx.dumps(x)[:100]))
    if k == "array" and c.get("arr"):
        y, mo, d, h, mi, s = c["arr"]
        ok = (-9999 <= y <= 9999 and 0 <= mo <= 11 and 0 <= h <= 23 and 0 <= mi <= 59 and isinstance(s, (int, float)) and 0 <= s < 60)
        if ok:
            try:
                if 1 <= y <= 9999:
                    datetime.date(y, mo + 1, d)
                else:
                    datetime.date(y % 400 + 2000, mo + 1, d)
            except ValueError:
                ok = False
        if not ok and out[0] != E:
            return ("malformed-array-accepted", "mktime of the malformed array %s answers %s" % (c["arr"], sx.dumps(out[0])))
        if ok and out[0] != E and 1 <= y <= 9999 and isinstance(s, int):
            want = int((datetime.datetime(y, mo + 1, d, h, mi, s) - EPOCH0).total_seconds())
            if out[0] != from_json(want):
                return ("mktime", "mktime of %s: %s, the calendar says %d" % (c["arr"], sx.dumps(out[0]), want))
    if k == "text":
        s = c["s"]
        try:
            dt = datetime.datetime.fromisoformat(s.replace("Z", "+00:00")) if "T" in s and len(s) >= 20 and s[0] != "-" and ".123456789" not in s else None
        except ValueError:
            dt = None
        if dt is not None and dt.tzinfo is not None and 1 < dt.year < 9999:
            want = (dt - datetime.datetime(1970, 1, 1, tzinfo=datetime.timezone.utc)).total_seconds()
            got = out[0]
            gv = None
            if isinstance(got, list) and got[0] in ("I", "B"):
                gv = float(int(got[1]))
            elif isinstance(got, list) and got[0] == "F":
                gv = struct.unpack(">d", bytes.fromhex(got[1]))[0]
            if gv is None or abs(gv - want) > 1e-6:
                return ("fromdate", "fromdate of %r: %s, expected %r" % (s, sx.dumps(got), want))
    return None
