"""C07: print-then-parse is the identity on values; JSON texts mean what RFC 8259 says."""
import itertools
import json
import struct
import core
import jq
import cli
import sx
from values import *
from values import from_json

RULE = ("values: exhaustive strings of length <= 2 over 26 structurally significant bytes (quotes, backslash, control characters, "
        "DEL, multi-byte leaders/continuations, invalid bytes) as text and byte strings, edge and random floats, integers around "
        "every boundary and of any size, decimal literals, special floats, small trees and objects with arbitrary keys; through "
        "tojson, tojson|fromjson, the command line (-c, default, -S, --indent n, --tab) and back; texts: an independent generator of "
        "RFC 8259 texts (escapes incl. surrogate pairs, all number shapes, whitespace) read by the implementation and by Python's "
        "json; non-trivial = distinct text")
ASSUMPTIONS = ["Python's json module as the independent RFC 8259 parser", "floats print as the shortest round-trip decimal (ryu); modelled in Json/Write.v"]
PARTIAL = ["value_roundtrip for nested values and the RFC 8259 acceptance theorem are not yet proved; proved: string and byte-string round trip for arbitrary bytes"]

SIG = [0x00, 0x01, 0x08, 0x09, 0x0a, 0x0c, 0x0d, 0x1f, 0x20, 0x22, 0x2f, 0x5c, 0x61, 0x62, 0x75, 0x78, 0x7e, 0x7f, 0x80, 0xbf, 0xc3, 0xa9, 0xe2, 0xf0, 0xff, 0x30]


def strings(tier):
    out = [b""]
    for a in SIG:
        out.append(bytes([a]))
    for a, b in itertools.product(SIG, repeat=2):
        out.append(bytes([a, b]))
    out += [b"\xe2\x82\xac", b"\xf0\x9f\x98\x80", b"a\xe2\x82", b"\xed\xa0\x80", b"\\u0041", b"\\", b"\"\\\"", "é\u0000\u001f\u007f ".encode(),
            b"\xf4\x90\x80\x80", b"\xc0\x80", b"line1\nline2\ttab\r\n", b"/\\/", b"\x7f\x80"]
    return out


def floats(rng, tier):
    edge = [0.0, -0.0, 1.0, -1.0, 0.1, 0.2, 0.30000000000000004, 1.5, 1e21, 1e22, 1e16, 1e17, 123456789012345680.0, 1e-5, 1e-6, 1e-7, 0.001,
            5e-324, 2.2250738585072014e-308, 2.225073858507201e-308, 1.7976931348623157e308, 9007199254740993.0, 4.35, 0.3, 2.0 ** 63, 2.0 ** 53,
            1.1, 100.0, 1e15, 123456.789, 9.5, 0.5, 1e-10, 3.141592653589793, 2.718281828459045, 1e100, 1.0e-100, 4.9406564584124654e-324]
    out = [F(x) for x in edge] + [F(-x) for x in edge[2:]] + [POS_INF, NEG_INF, NAN]
    for _ in range(300 if tier == "quick" else 5000):
        bits = rng.getrandbits(64)
        if ((bits >> 52) & 0x7FF) == 0x7FF:
            continue
        out.append(["F", "%016x" % bits])
    for _ in range(150 if tier == "quick" else 2000):
        # decimal-looking floats
        x = round(rng.uniform(-1e6, 1e6), rng.randint(0, 8)) * 10 ** rng.randint(-20, 20)
        out.append(F(float(x)))
    return out


def numbers(rng, tier):
    ints = [0, 1, -1, 9, 10, 99, 2 ** 31, 2 ** 53, 2 ** 53 + 1, ISIZE_MAX, ISIZE_MAX + 1, ISIZE_MIN, ISIZE_MIN - 1, 2 ** 64, 10 ** 40, -10 ** 40, 10 ** 400 + 7]
    out = [I(z) if ISIZE_MIN <= z <= ISIZE_MAX else B(z) for z in ints] + [B(5), B(0), B(-7)]
    decs = ["1.10", "1e1000", "-0.0", "0.0", "1.0", "1E5", "1e+5", "1e-5", "0.1e1", "100000000000000000000.5", "1.7976931348623157e309", "-1e-400", "0e0", "1.5e300", "0.000"]
    out += [D(d) for d in decs]
    return out + floats(rng, tier)


def trees(rng, tier):
    base = [NULL, TRUE, FALSE, I(1), F(1.5), D("1.10"), S("a\"b"), Y(b"\xff\n"), A(), O(), NAN, POS_INF, B(10 ** 30)]
    out = []
    for _ in range(200 if tier == "quick" else 3000):
        out.append(dedupe_keys(tree(rng, base + STR_ATOMS[:8], rng.choice([1, 2, 3]))))
    out += [O((S("b"), I(1)), (S("a"), O((S("z"), A(I(1), A())), (S("y"), NULL))), (I(1), S("int key")), (A(I(1)), O()), (NULL, TRUE), (F(0.5), Y("k"))),
            A(A(A(A())), O((S(""), O((S(""), A()))))), O((O((S("k"), I(1))), A(O())))]
    return out


def gen(ctx):
    rng, tier = ctx["rng"], ctx["tier"]
    cases = []
    vals = [S(s) for s in strings(tier)] + [Y(s) for s in strings(tier)] + numbers(rng, tier) + trees(rng, tier)
    ctx["c07_vals"] = vals
    for v in vals:
        cases.append(dict(filter="[tojson, (tojson | fromjson), (tojson | fromjson | tojson), ([.] | tojson | fromjson | .[0]), ({\"k\": ., (.): 1}? | tojson | fromjson | keys_unsorted | length)]",
                          inputs=[v], kind="roundtrip-" + (v[0] if isinstance(v, list) else "atom")))
    return cases


def expect_after_roundtrip(v):
    """what `tojson | fromjson` must return for v: identity except float -> the decimal literal it prints as, and
    integers in their normal representation"""
    if not isinstance(v, list):
        return v
    t = v[0]
    if t in ("I", "B"):
        z = int(v[1])
        return I(z) if ISIZE_MIN <= z <= ISIZE_MAX else B(z)
    if t == "F":
        bits = int(v[1], 16)
        exp = (bits >> 52) & 0x7FF
        if exp == 0x7FF:
            if bits & ((1 << 52) - 1):
                return NAN
            return v   # infinities
        return None     # decimal literal: checked through the printed form
    if t == "A":
        return ["A"] + [expect_after_roundtrip(x) for x in v[1:]]
    if t == "O":
        return ["O"] + [[expect_after_roundtrip(kv[0]), expect_after_roundtrip(kv[1])] for kv in v[1:]]
    return v


def same_modulo_float(want, got):
    if want is None:
        return isinstance(got, list) and got[0] in ("D", "I", "B")
    if isinstance(want, list) and isinstance(got, list) and want and got and want[0] == got[0] and want[0] in ("A", "O"):
        if len(want) != len(got):
            return False
        if want[0] == "A":
            return all(same_modulo_float(a, b) for a, b in zip(want[1:], got[1:]))
        return all(same_modulo_float(a[0], b[0]) and same_modulo_float(a[1], b[1]) for a, b in zip(want[1:], got[1:]))
    return want == got


def oracle(c, impl, model=None):
    if isinstance(impl, list) and impl and impl[0] in ("panic", "crash"):
        return ("panic:" + c["kind"], "panicked: " + sx.dumps(impl)[:200])
    if not (isinstance(impl, list) and impl and impl[0] == "out"):
        return None
    if impl[2] != "end" or len(impl[1]) != 1:
        return ("roundtrip-error", "tojson | fromjson failed on %s: %s" % (sx.dumps(c["inputs"][0])[:120], sx.dumps(impl)[:200]))
    out = impl[1][0][1:]
    v = c["inputs"][0]
    text, back, text2, inarr = out[0], out[1], out[2], out[3]
    if text != text2:
        return ("printed-form", "value does not print the same after a round trip: %s vs %s" % (sx.dumps(text)[:150], sx.dumps(text2)[:150]))
    want = expect_after_roundtrip(v)
    if not same_modulo_float(want, back):
        return ("roundtrip-value", "tojson | fromjson changed the value %s into %s" % (sx.dumps(v)[:150], sx.dumps(back)[:150]))
    if not same_modulo_float(want, inarr):
        return ("roundtrip-nested", "round trip inside an array changed the value %s into %s" % (sx.dumps(v)[:150], sx.dumps(inarr)[:150]))
    if isinstance(v, list) and v[0] == "F" and isinstance(back, list) and back[0] == "D":
        # the decimal literal must denote the same float, and look like a non-integer literal
        try:
            f = float(back[1].decode())
        except Exception:
            return ("float-text", "float printed as %r" % back[1])
        if struct.pack(">d", f).hex() != v[1] and not (f == 0 and int(v[1], 16) in (0, 1 << 63) and (str(f)[0] == "-") == (v[1][0] == "8")):
            return ("float-roundtrip", "float %s prints as %r which reads back as another float" % (v[1], back[1]))
        if not any(ch in back[1] for ch in b".eE"):
            return ("float-as-int", "float %s prints like an integer: %r" % (v[1], back[1]))
    return None


# ---- command line and RFC 8259 texts ---------------------------------------------------------------------------------

def json_text(rng, depth=3):
    """an RFC 8259 text with random escapes / number shapes / whitespace, and the value Python assigns to it"""
    wsp = lambda: rng.choice(["", "", " ", "\n", "\t ", "\r\n"])
    r = rng.random()
    if depth == 0 or r < 0.35:
        k = rng.random()
        if k < 0.15:
            return rng.choice(["null", "true", "false"])
        if k < 0.55:
            # numbers
            sign = rng.choice(["", "-"])
            ip = rng.choice(["0", str(rng.randint(1, 9)), str(rng.randint(10, 10 ** rng.randint(2, 30)))])
            fp = rng.choice(["", "", ".0", ".5", "." + str(rng.randint(0, 10 ** 6)).zfill(rng.randint(1, 8)), ".10"])
            ep = rng.choice(["", "", "e0", "E5", "e+3", "e-2", "e10", "E-7"])
            return sign + ip + fp + ep
        # strings
        parts = []
        for _ in range(rng.randint(0, 6)):
            q = rng.random()
            if q < 0.4:
                parts.append(rng.choice(["a", "B", " ", "é", "€", "😀", "/", "x", "0", "\u007f", "ÿ"]))
            elif q < 0.6:
                parts.append(rng.choice(['\\"', "\\\\", "\\/", "\\b", "\\f", "\\n", "\\r", "\\t"]))
            elif q < 0.85:
                parts.append("\\u%04x" % rng.choice([0, 0x1f, 0x41, 0xe9, 0x20ac, 0xffff, 0x7f, 0x2028, 0xd7ff, 0xe000]))
            else:
                c = rng.randint(0x10000, 0x10ffff) - 0x10000
                parts.append("\\u%04X\\u%04x" % (0xd800 + (c >> 10), 0xdc00 + (c & 0x3ff)))
        return '"' + "".join(parts) + '"'
    if r < 0.7:
        n = rng.randint(0, 3)
        return "[" + wsp() + ("," + wsp()).join(wsp() + json_text(rng, depth - 1) + wsp() for _ in range(n)) + wsp() + "]"
    n = rng.randint(0, 3)
    ents = []
    for i in range(n):
        key = json_text(rng, 0)
        while not key.startswith('"'):
            key = json_text(rng, 0)
        ents.append(wsp() + key + wsp() + ":" + wsp() + json_text(rng, depth - 1) + wsp())
    return "{" + wsp() + ",".join(ents) + "}"


def py_to_expected(x, text_tokens=None):
    """Python json value -> what jaq must hold: integers exact, strings as UTF-8; non-integer numbers are compared by text elsewhere"""
    return from_json(x)


def custom(ctx):
    rng, tier = ctx["rng"], ctx["tier"]
    stats = dict(cli_ok=0, cli_diff=0, rfc_ok=0, rfc_diff=0)
    violations = []
    samples = []
    distinct = set()
    # (1) command line output == the model writer for every option set; reading the output back gives the same output
    vals = trees(rng, tier)[: (50 if tier == "quick" else 1500)] + [S(s) for s in strings(tier)[:(30 if tier == "quick" else 300)]] + numbers(rng, "quick")[:(50 if tier == "quick" else 500)]
    vals = [v for v in vals if not has_bytes(v)]    # byte strings cannot enter through JSON text unless printed as b"..": they can
    opts = [(["-c"], None, False, False), ([], b"  ", False, True), (["-S"], b"  ", True, True), (["--indent", "3"], b"   ", False, True),
            (["--tab"], b"\t", False, True), (["-c", "-S"], None, True, False), (["--indent", "0"], b"", False, True), (["-cS", "--tab"], None, True, False)]
    model_cases = []
    for i, v in enumerate(vals):
        model_cases.append(["t%d" % i, "write", "none", "false", "false", v])
    texts = jq.run_model_cases(model_cases)
    jobs = []
    meta = []
    mc = []
    for i, v in enumerate(vals):
        t = texts.get("t%d" % i)
        if not (isinstance(t, list) and t[0] == "S"):
            continue
        for k, (args, ind, sort, sep) in enumerate(opts):
            jobs.append(dict(args=args + ["."], stdin=t[1] + b"\n"))
            meta.append((i, k))
            mc.append(["w%d_%d" % (i, k), "write", ind if ind is not None else "none", "true" if sort else "false", "true" if sep else "false", v])
    want = jq.run_model_cases(mc)
    res = cli.run_many(jobs)
    back_jobs = []
    back_meta = []
    for (i, k), (rc, out, err) in zip(meta, res):
        w = want.get("w%d_%d" % (i, k))
        if not (isinstance(w, list) and w[0] == "S"):
            continue
        exp = w[1] + b"\n"
        # floats: the model prints Flt via its ryu model, the CLI read them as decimal literals from the compact text: identical text
        if rc == 0 and out == exp:
            stats["cli_ok"] += 1
            distinct.add(out)
            if len(samples) < 3:
                samples.append(dict(args=opts[k][0], stdin=texts["t%d" % i][1].decode("latin-1")[:80], stdout=out.decode("latin-1")[:120]))
            back_jobs.append(dict(args=opts[k][0] + ["."], stdin=out))
            back_meta.append(out)
        else:
            stats["cli_diff"] += 1
            violations.append(dict(key="cli-output", what="jaq %s . prints %r (rc %d), the writer model says %r" % (" ".join(opts[k][0]), out[:200], rc, exp[:200]),
                                   case=dict(filter=".", kind="cli", args=opts[k][0], stdin=texts["t%d" % i][1].decode("latin-1")), impl=None))
    for exp, (rc, out, err) in zip(back_meta, cli.run_many(back_jobs)):
        if rc != 0 or out != exp:
            stats["cli_diff"] += 1
            violations.append(dict(key="cli-reread", what="reading jaq's own output back does not reproduce it: %r -> %r" % (exp[:150], out[:150]),
                                   case=dict(filter=".", kind="cli-reread", stdin=exp.decode("latin-1")), impl=None))
    # (2) RFC 8259 texts: implementation vs Python's json
    n = 600 if tier == "quick" else 10000
    tcases = []
    pyvals = []
    for i in range(n):
        t = json_text(rng, 3)
        try:
            pv = json.loads(t, parse_float=lambda s: ("DEC", s))
        except Exception:
            continue
        tcases.append(dict(id="r%d" % i, filter="[fromjson] | [., map(tojson)]", inputs=[S(t.encode("utf-8"))], kind="rfc", text=t))
        pyvals.append(pv)
    res2 = jq.run_both(tcases)
    for c, pv in zip(tcases, pyvals):
        r = res2[c["id"]]
        impl = r["impl"]
        ok = isinstance(impl, list) and impl[0] == "out" and impl[2] == "end" and len(impl[1]) == 1
        why = None
        if not ok:
            why = "RFC 8259 text rejected or crashed: %s" % sx.dumps(impl)[:200]
        else:
            vals_, texts_ = impl[1][0][1], impl[1][0][2]
            if len(vals_) != 2:
                why = "text read as %d values" % (len(vals_) - 1)
            elif not rfc_equal(pv, vals_[1]):
                why = "value differs from the independent parser: %s" % sx.dumps(vals_[1])[:200]
        if why is None and jq.classify(r) == "disagree":
            why = "implementation and model reader differ: %s vs %s" % (sx.dumps(r["impl"])[:150], sx.dumps(r["model"])[:150])
        if why:
            stats["rfc_diff"] += 1
            violations.append(dict(key="rfc8259", what=why, case=dict(filter="fromjson", kind="rfc", inputs=[S(c["text"].encode())]), impl=impl))
        else:
            stats["rfc_ok"] += 1
            distinct.add(c["text"])
    return dict(stats=stats, evaluations=len(jobs) + len(back_jobs) + len(tcases), distinct=distinct, violations=violations, samples=samples,
                coverage=dict(cli_option_sets=[" ".join(o[0]) or "(default)" for o in opts]))


def has_bytes(v):
    return False


def rfc_equal(pv, got):
    """Python value vs jaq value (sexp): exact integers, strings as UTF-8, non-integer literals verbatim"""
    if isinstance(pv, tuple) and pv[0] == "DEC":
        return isinstance(got, list) and got[0] == "D" and got[1] == pv[1].encode()
    if pv is None or pv is True or pv is False:
        return got == from_json(pv)
    if isinstance(pv, int):
        return isinstance(got, list) and got[0] in ("I", "B") and int(got[1]) == pv and (got[0] == "I") == (ISIZE_MIN <= pv <= ISIZE_MAX)
    if isinstance(pv, str):
        return got == ["S", pv.encode("utf-8", "surrogatepass")]
    if isinstance(pv, list):
        return isinstance(got, list) and got[0] == "A" and len(got) == len(pv) + 1 and all(rfc_equal(a, b) for a, b in zip(pv, got[1:]))
    if isinstance(pv, dict):
        return isinstance(got, list) and got[0] == "O" and len(got) == len(pv) + 1 and all(
            rfc_equal(k, kv[0]) and rfc_equal(v, kv[1]) for (k, v), kv in zip(pv.items(), got[1:]))
    return False
