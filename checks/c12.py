"""C12: collection built-ins obey the invariants and equations the manual states."""
import json
from values import *
from values import from_json
import sx

RULE = ("arrays/objects with duplicates, ties, mixed types, nesting, empties and non-string keys x key filters with 0-2 outputs; "
        "each manual equation as a pair of programs with equal output streams (first error included) on the implementation, both "
        "sides also run on the model; plus Python reference checks (stable sort, maximal runs, indices, flatten, transpose); "
        "non-trivial = distinct stream")
ASSUMPTIONS = ["values are NaN-free; integers within 2^53 (so that the total order of C08 applies)"]
PARTIAL = []

ST = 'def st(f): [(try (f | [.]) catch {e: true})]; '

KEYF = [".", ".a", ".[0]", "type", "length?", "(.a, .b)", "empty", ".a?", "[.a, .b]", "tojson", "(. | tostring | length)", ".[1]?", "-(.a? // 0)"]

EQS = [
    ("sort_by", "sort_by(F)", "sort_by([F])"),
    ("sort_by-stable", "sort_by(F)", "[to_entries[] | [[.value | F], .key, .value]] | sort | map(.[2])"),
    ("sort", "sort", "sort_by(.)"),
    ("group_by", "group_by(F)", "[to_entries[] | [[.value | F], .key, .value]] | sort | reduce .[] as $e ([]; if length > 0 and (.[-1][0] == $e[0]) then .[-1][1] += [$e[2]] else . + [[$e[0], [$e[2]]]] end) | map(.[1])"),
    ("unique_by", "unique_by(F)", "[group_by(F)[] | .[0]]"),
    ("unique", "unique", "unique_by(.)"),
    ("min_by", "min_by(F)", "if length == 0 then null else sort_by(F) | .[0] end"),
    ("max_by", "max_by(F)", "if length == 0 then null else sort_by(F) | (.[-1] | [F]) as $k | map(select([F] == $k)) | .[-1] end"),
    ("min", "min", "min_by(.)"),
    ("max", "max", "max_by(.)"),
    ("keys", "keys", "keys_unsorted | sort"),
    ("entries", "to_entries | from_entries", "if type == \"object\" then . else (to_entries | from_entries) end"),
    ("with_entries", "with_entries(.)", "to_entries | map(.) | from_entries"),
    ("with_entries-id", "with_entries(.)", "if type == \"object\" then . else with_entries(.) end"),
    ("map", "map(F)", "[.[] | F]"),
    ("map_values", "map_values(F)", ".[] |= (F)"),
    ("walk", "walk(if type == \"number\" then . + 1 else . end)", ".. |= (if type == \"number\" then . + 1 else . end)"),
    ("walk-def", "walk(if type == \"array\" then sort else . end)", "def w(f): def rec: (.[]? |= rec) | f; rec; w(if type == \"array\" then sort else . end)"),
    ("del", "del(P)", "(P) |= empty"),
    ("paths", "[paths]", "[skip(1; path(..))]"),
    ("paths-true", "[paths]", "[paths(true)]"),
    ("paths-p", "[paths(type == \"number\")]", "[paths as $p | if getpath($p) | type == \"number\" then $p else empty end]"),
    ("pick", "pick((P1), (P2))", "pick(P1) * pick(P2)"),
    ("inside", "inside($x)", ". as $i | $x | contains($i)"),
    ("in", "in($x)", ". as $i | $x | has($i)"),
    ("index", "index($x)", "indices($x)[0]"),
    ("rindex", "rindex($x)", "indices($x)[-1]"),
    ("indices-verify", "if (type == ($x | type)) then ([indices($x)[] as $i | .[$i:][:$x | length] == $x] | all) else true end", "true"),
    ("indices-complete", "if (type == ($x | type)) and ($x | length) > 0 then [range(length) as $i | select(.[$i:][:$x | length] == $x) | $i] else indices($x) end", "indices($x)"),
    ("flatten", "flatten", "def fl: if isarray then .[] | fl end; [fl]"),
    ("flatten-d", "flatten($d)", "def fl($d): if isarray and $d >= 0 then .[] | fl($d - 1) end; [fl($d)]"),
    ("not", "not", "if . then false else true end"),
    ("join", "join($s)", ".[] |= tostring | .[:-1][] += $s | reduce .[] as $x (\"\"; . + $x)"),
    ("type-is", "[isboolean, isnumber, isstring, isarray, isobject]", "[type == \"boolean\", type == \"number\", type == \"string\", type == \"array\", type == \"object\"]"),
    ("select-type", "[values, nulls, booleans, numbers, strings, arrays, objects, iterables, scalars]",
     "[select(. != null), select(. == null), select(isboolean), select(isnumber), select(isstring), select(isarray), select(isobject), select(type == \"array\" or type == \"object\"), select((type == \"array\" or type == \"object\") | not)]"),
    ("abs", "abs", "if type == \"number\" and . < 0 then -. else . end"),
    ("floor-int", "[floor, round, ceil]", "if type == \"number\" and (. == (. | floor)) and (. | tostring | test(\"^-?[0-9]+$\")) then [., ., .] else [floor, round, ceil] end"),
    ("ltrimstr", "ltrimstr($t)", "if startswith($t) then .[($t | length):] else . end"),
    ("rtrimstr", "rtrimstr($t)", "if endswith($t) and ($t | length) > 0 then .[:length - ($t | length)] else . end"),
    ("tonumber", "tonumber", "if type == \"number\" then . else fromjson | if type == \"number\" then . else error(\"cannot parse as number\") end end"),
    ("combinations-n", "[combinations($n)]", "[[limit($n; repeat(.))] | combinations]"),
    ("any-all", "[any, all]", "[any(.[]; .), all(.[]; .)]"),
    ("add", "add", "reduce .[] as $x (null; . + $x)"),
    ("first-last", "[first, last, nth(1)]", "[.[0], .[-1], .[1]]"),
    ("has-in", "[(.[]? | tojson) as $k | ($k | fromjson)] | length", "[.[]?] | length"),
    ("transpose", "transpose", "[range([.[] | length] | max) as $i | [.[][$i]]]"),
    ("getpath-setpath", "setpath($p; 9) | getpath($p)", "(getpath($p) = 9) | getpath($p)"),
    ("to_entries", "to_entries", "[key_values[] as [$key, $value] | {$key, $value}]"),
    ("from_entries-last-wins", "to_entries | (. + .) | from_entries", "to_entries | from_entries"),
    ("splits", "[splits($s)]", "split($s; null)"),
    # has($i) says exactly whether .[$i] is a position: the same negative positions count from the end for both
    ("has-range", "[has(range(-length - 2; length + 2))]", "[range(-length - 2; length + 2) as $i | $i >= -length and $i < length]"),
    ("has-get", "[range(-length - 2; length + 2) as $i | has($i) == ((.[:$i] | length) != (.[:$i + 1] | length) or ($i == -1 and length > 0))]", "[range(-length - 2; length + 2) | true]"),
    ("has-keys", "[has(keys[])] | all", "true"),
    ("in-keys", "[keys[] as $k | [.] | all(.[]; . as $c | $k | in($c))] | all", "true"),
    # bsearch on a sorted array: a non-negative result points at an equal element, a negative one (-1 - r) names the insertion point r
    ("bsearch-spec", "sort | . as $a | [($a[], $x, ($a[] | [.]), null) as $y | ($a | bsearch($y)) as $r | if $r >= 0 then $a[$r] == $y else (-1 - $r) as $i | ([$a[:$i][] | . < $y] | all) and ([$a[$i:][] | . > $y] | all) end] | all", "true"),
    ("bsearch-present", "sort | . as $a | [$a[] as $y | ($a | bsearch($y)) >= 0] | all", "true"),
    ("bsearch-iff", "sort | . as $a | (($a | bsearch($x)) >= 0) == any($a[]; . == $x)", "true"),
]

ARRS = ["[]", "[1]", "[3,1,2]", "[1,1.0,1]", "[{\"a\":1,\"b\":2},{\"a\":1,\"b\":1},{\"a\":0},{\"b\":1,\"a\":1}]", "[[2,1],[1,2],[1],[]]",
        "[null,true,false,0,\"a\",[],{}]", "[\"b\",\"a\",\"ab\",\"\"]", "[[1,[2,[3,[4]]]],5]", "[{\"a\":[1,2]},{\"a\":[1]},{\"a\":null}]",
        "[0,-0.0,0.0]", "[2,1,2,1,2,1]", "[[1,2],[3],[4,5,6]]", "[\"a,b\",\"c\"]", "[1,[1],[[1]]]", "[{\"a\":1},{\"a\":1,\"b\":null}]"]
OBJS = ["{}", "{\"a\":1}", "{\"b\":2,\"a\":1}", "{\"a\":{\"b\":{\"c\":1}},\"d\":[1,{\"e\":2}]}", "{\"a\":null,\"b\":false}",
        "{\"a\":[3,1,2],\"b\":\"x\"}", "{\"z\":1,\"y\":{\"x\":2,\"w\":3}}"]
SCALARS = ["null", "true", "1", "-1.5", "\"abc\"", "\"\"", "2.0", "\"1\"", "\"true\"", "\"x1\"", "1.5", "-2", "\"a,b,c\""]
XS = ["1", "[1]", "\"a\"", "[]", "[1,2]", "\"b\"", "null", "{\"a\":1}", "\"\"", "[[1]]", "0", "\",\"", "\"ab\"", "2"]
PATHS = [".[0]", ".a", ".[]", ".[1:]", ".a.b", ".[0]?", "..", ".[]?|.[]?", ".d[1].e", "(.a, .b)", ".[-1]", "first(.[])", "empty", ".a?"]


DOM = {"sort_by": "arr", "sort_by-stable": "arr", "sort": "arr", "group_by": "arr", "unique_by": "arr", "unique": "arr", "min_by": "arr",
       "max_by": "arr", "min": "arr", "max": "arr", "keys": "arrobj", "entries": "obj", "with_entries": "obj", "with_entries-id": "obj",
       "map": "arrobj", "map_values": "arrobj", "index": "arrstr", "rindex": "arrstr", "indices-verify": "arrstr", "flatten": "any",
       "flatten-d": "any", "abs": "num", "floor-int": "num", "indices-complete": "arrstr", "ltrimstr": "str", "rtrimstr": "str", "tonumber": "scalar", "combinations-n": "arr", "any-all": "arr", "add": "arrobj",
       "first-last": "arr", "transpose": "arrarr", "to_entries": "obj", "from_entries-last-wins": "obj", "splits": "str", "join": "arr",
       "has-in": "any", "in": "any", "inside": "any", "bsearch-spec": "arr", "bsearch-present": "arr", "bsearch-iff": "arr", "has-range": "arr", "has-get": "arr", "has-keys": "arrobj", "in-keys": "arrobj"}


def gen(ctx):
    rng, tier = ctx["rng"], ctx["tier"]
    n = 2500 if tier == "quick" else 40000
    cases = []
    nonstr = [O((I(1), S("x")), (NULL, I(2)), (A(I(1)), TRUE)), O((F(1.5), A(I(3), I(1))), (S("k"), O((TRUE, I(1))))),
              O((FALSE, I(1))), O((NULL, I(1)), (FALSE, I(2)), (TRUE, I(3))), O((FALSE, NULL), (S("key"), FALSE), (S("k"), I(0)), (I(0), FALSE)),
              O((S("name"), I(1)), (S("value"), I(2)), (S("key"), NULL)), O((O((S("key"), FALSE)), I(1)), (A(), FALSE), (S(""), NULL))]
    for _ in range(n):
        kind, lhs, rhs = rng.choice(EQS)
        f = rng.choice(KEYF)
        p = rng.choice(PATHS)
        p2 = rng.choice(PATHS)
        lhs_, rhs_ = [t.replace("P1", p).replace("P2", p2).replace("P", p).replace("F", f) for t in (lhs, rhs)]
        dom = DOM.get(kind, "any")
        pool = {"arr": ARRS, "obj": OBJS, "arrobj": ARRS + OBJS, "str": [x for x in SCALARS if x.startswith('"')], "scalar": SCALARS,
                "arrstr": ARRS + [x for x in SCALARS if x.startswith('"')], "arrarr": ["[[1,2],[3],[4,5,6]]", "[[2,1],[1,2],[1],[]]", "[]", "[[]]", "[[1],[2]]"],
                "num": ["1", "-1", "0", "-1.5", "2.5", "-0.0", "1e300", "-3", "9007199254740993", "0.5", "-0.5", "1e17"],
                "any": ARRS * 3 + OBJS * 2 + SCALARS}[dom]
        src = rng.choice(pool)
        inp = from_json(json.loads(src))
        if rng.random() < (0.3 if dom == "obj" else 0.05) and dom in ("any", "obj", "arrobj"):
            inp = rng.choice(nonstr)
        vars = [("x", from_json(json.loads(rng.choice(XS)))), ("s", from_json(json.loads(rng.choice(["\",\"", "\"\"", "\"a\"", "\"ab\"", "1", "null"])))),
                ("d", I(rng.choice([0, 1, 2, 3]))), ("n", I(rng.choice([0, 1, 2]))), ("t", from_json(json.loads(rng.choice(["\"a\"", "\"\"", "\"abc\"", "\"c\"", "\"ab\"", "\"x\"", "\"1\""])))), ("p", from_json(json.loads(rng.choice(["[]", "[0]", "[\"a\"]", "[\"a\",\"b\"]", "[1,0]", "[\"d\",1,\"e\"]"]))))]
        cases.append(dict(filter=ST + "[st(%s), st(%s)]" % (lhs_, rhs_), inputs=[inp], vars=vars, kind=kind, eq=(lhs_, rhs_)))
    # long arrays with ties (longer than any small-slice fast path of the sorts)
    for _ in range(60 if tier == "quick" else 800):
        k = rng.randint(21, 90)
        arr = [rng.choice([0, 1, 2, 3, 4, 5, 6, 7, 8, 9, 10, 11]) + 12 * i for i in range(k)]
        rng.shuffle(arr)
        if rng.random() < 0.5:
            arr = [{"a": x % 4, "b": x} for x in arr]
            f = rng.choice([".a", ".a % 2", "(.a, 0)", "[.a]"])
        else:
            f = rng.choice([". % 3", ". % 2", "(. % 4 | tostring)", "0", ". % 5 == 0"])
        for kind in ("sort_by-stable", "group_by", "unique_by", "min_by", "max_by"):
            _, lhs, rhs = [e for e in EQS if e[0] == kind][0]
            lhs_, rhs_ = lhs.replace("F", f), rhs.replace("F", f)
            cases.append(dict(filter=ST + "[st(%s), st(%s)]" % (lhs_, rhs_), inputs=[from_json(arr)], vars=[], kind=kind, eq=(lhs_, rhs_)))
    # bsearch on long sorted arrays with runs of equal elements, for every element, every gap and both ends
    for _ in range(40 if tier == "quick" else 600):
        k = rng.randint(1, 70)
        arr = sorted(rng.choice([2 * rng.randint(0, 40), 2 * rng.randint(0, 8)]) for _ in range(k))
        if rng.random() < 0.3:
            arr = [float(x) if rng.random() < 0.5 else x for x in arr]
        lhs_ = ". as $a | [range(-1; 84) as $y | ($a | bsearch($y)) as $r | if $r >= 0 then $a[$r] == $y else (-1 - $r) as $i | ([$a[:$i][] | . < $y] | all) and ([$a[$i:][] | . > $y] | all) end] | all"
        cases.append(dict(filter=ST + "[st(%s), st(%s)]" % (lhs_, "true"), inputs=[from_json(arr)], vars=[], kind="bsearch-spec", eq=(lhs_, "true")))
        cases.append(dict(filter="[bsearch(range(-1; 84))]", inputs=[from_json(arr)], vars=[], kind="bsearch-model"))
    # searching in text strings, byte strings and arrays: overlapping and multi-byte occurrences
    hay = ["aaaa", "ababab", "abcabc", "", "a", "\u00e9\u00e9\u00e9", "x\u00e9x\u00e9", "aXaXa", "aaa\u20acaa"]
    needles = ["aa", "abab", "a", "", "abc", "\u00e9", "\u00e9\u00e9", "aXa", "b", "x\u00e9"]
    for h in hay:
        for nd in needles:
            hv, nv = json.loads('"%s"' % h), json.loads('"%s"' % nd)
            for mk, kind in ((S, "text"), (Y, "bytes")):
                cases.append(dict(filter="[indices($x), index($x), rindex($x), ([indices($x)[] as $i | .[$i:][:$x | length] == $x] | all), "
                                         "(if ($x | length) > 0 then [range(length) as $i | select(.[$i:][:$x | length] == $x) | $i] == indices($x) else true end), "
                                         "contains($x), startswith($x), endswith($x), ltrimstr($x), rtrimstr($x), inside($x), (. as $h | $x | inside($h))]",
                                  inputs=[mk(hv.encode())], vars=[("x", mk(nv.encode()))], kind="search-" + kind, py=(hv, nv, kind)))
    for arr, nd in [([1, 1, 1, 1], [1, 1]), ([1, 2, 1, 2, 1, 2], [1, 2, 1, 2]), ([1, 2, 1], 1), ([[1], [1]], [[1]]), ([], []), ([1], [])]:
        cases.append(dict(filter="[indices($x), index($x), rindex($x)]", inputs=[from_json(arr)], vars=[("x", from_json(nd))], kind="search-arr", py=(arr, nd, "arr")))
    # containment against a Python reference: needles built from pieces of the haystack (with repetitions, so that a needle
    # can be longer than what contains it) and unrelated ones
    for _ in range(250 if tier == "quick" else 4000):
        h = rand_tree(rng, 3)
        nd = needle_of(rng, h) if rng.random() < 0.8 else rand_tree(rng, 2)
        cases.append(dict(filter="[contains($x), (. as $h | $x | inside($h))]", inputs=[from_json(h)], vars=[("x", from_json(nd))], kind="pyref-contains", py=(h, nd)))
    # Python references
    for _ in range(200 if tier == "quick" else 3000):
        k = rng.randint(0, 9)
        arr = [rng.choice([1, 2, 3, 1.0, "a", "b", None, [1], [2], {"a": 1}, {"a": 2}, True]) for _ in range(k)]
        cases.append(dict(filter="[sort, group_by(type), unique, (indices(1)), (indices([1,2])), flatten, (map(type) | unique)]", inputs=[from_json(arr)], kind="pyref", py=arr))
    return cases


def rand_tree(rng, d):
    r = rng.random()
    if d <= 0 or r < 0.3:
        return rng.choice([1, 2, 1.0, "foobar", "foo", "bar", "", "oba", None, True, False, [], {}])
    if r < 0.7:
        return [rand_tree(rng, d - 1) for _ in range(rng.randint(0, 3))]
    return {k: rand_tree(rng, d - 1) for k in rng.sample(["a", "b", "c"], rng.randint(0, 3))}


def needle_of(rng, h):
    """something the haystack contains (mostly): pieces of it, repeated and reordered"""
    if isinstance(h, str):
        if not h or rng.random() < 0.2:
            return h
        i = rng.randint(0, len(h)); j = rng.randint(i, len(h))
        return h[i:j]
    if isinstance(h, list):
        if not h:
            return rng.choice([[], [1]])
        k = rng.randint(0, len(h) + 2)
        out = []
        for _ in range(k):
            e = rng.choice(h)
            # several pieces of one element
            out.append(needle_of(rng, e))
        return out
    if isinstance(h, dict):
        ks = [k for k in h if rng.random() < 0.7]
        out = {k: needle_of(rng, h[k]) for k in ks}
        if rng.random() < 0.1:
            out["zz"] = 1
        return out
    return h if rng.random() < 0.9 else rng.choice([1, "x", None])


def py_contains(a, b):
    if isinstance(a, str) and isinstance(b, str):
        return b.encode() in a.encode()
    if isinstance(a, list) and isinstance(b, list):
        return all(any(py_contains(x, y) for x in a) for y in b)
    if isinstance(a, dict) and isinstance(b, dict):
        return all(k in a and py_contains(a[k], v) for k, v in b.items())
    if type(a) in TYPE_RANK and type(b) in TYPE_RANK and TYPE_RANK[type(a)] == TYPE_RANK[type(b)]:
        return py_key(a) == py_key(b)
    return False


TYPE_RANK = {type(None): 0, bool: 1, int: 2, float: 2, str: 3, list: 4, dict: 5}


def py_key(v):
    r = TYPE_RANK[type(v)]
    if r == 0:
        return (0,)
    if r == 1:
        return (1, int(v))
    if r == 2:
        return (2, float(v))
    if r == 3:
        return (3, v.encode("utf-8"))
    if r == 4:
        return (4, tuple(py_key(x) for x in v))
    ks = sorted(v.keys(), key=lambda k: k.encode("utf-8"))
    return (5, tuple(k.encode("utf-8") for k in ks), tuple(py_key(v[k]) for k in ks))


def oracle(c, impl, model=None):
    if isinstance(impl, list) and impl and impl[0] in ("panic", "crash"):
        return ("panic:" + c["kind"], "panicked: " + sx.dumps(impl)[:200])
    if not (isinstance(impl, list) and impl and impl[0] == "out" and impl[2] == "end" and len(impl[1]) == 1):
        return None
    out = impl[1][0]
    if c["kind"] == "bsearch-model":
        return None        # compared with the model of the standard library's binary search only
    if c["kind"].startswith("search-"):
        h, nd, kind = c["py"]
        got = out[1:]
        if kind == "arr":
            if isinstance(nd, list):
                want = [i for i in range(len(h) - len(nd) + 1) if h[i:i + len(nd)] == nd] if nd else []
            else:
                want = [i for i, x in enumerate(h) if x == nd]
        elif kind == "text":
            want = [i for i in range(len(h) - len(nd) + 1) if h[i:i + len(nd)] == nd] if nd else []
        else:
            hb, nb = h.encode(), nd.encode()
            want = [i for i in range(len(hb) - len(nb) + 1) if hb[i:i + len(nb)] == nb] if nb else []
        if got[0] != from_json(want):
            return ("indices-" + kind, "indices(%r) in %r (%s): got %s, all positions are %s" % (nd, h, kind, sx.dumps(got[0]), want))
        if got[1] != from_json(want[0] if want else None) or got[2] != from_json(want[-1] if want else None):
            return ("index-rindex-" + kind, "index/rindex(%r) in %r (%s): %s %s" % (nd, h, kind, sx.dumps(got[1]), sx.dumps(got[2])))
        if kind != "arr":
            if got[3] != "true" or got[4] != "true":
                return ("indices-verify-" + kind, "indices($x) does not list exactly the positions i with .[i:][:$x|length] == $x: %s" % sx.dumps(out))
            hb, nb = h.encode(), nd.encode()
            if got[5] != from_json(nb in hb) or got[6] != from_json(hb.startswith(nb)) or got[7] != from_json(hb.endswith(nb)):
                return ("contains-starts-ends-" + kind, "contains/startswith/endswith(%r) on %r: %s" % (nd, h, sx.dumps(out)))
        return None
    if c["kind"] == "pyref-contains":
        h, nd = c["py"]
        want = py_contains(h, nd)
        if out[1] != from_json(want) or out[2] != from_json(want):
            return ("pyref-contains", "%s | contains(%s): got %s, by the documented definition: %s" % (json.dumps(h), json.dumps(nd), sx.dumps(out), want))
        return None
    if c["kind"] == "pyref":
        arr = c["py"]
        srt = sorted(arr, key=py_key)    # Python's sort is stable
        if out[1] != from_json(srt):
            return ("pyref-sort", "sort is not the stable sort by the documented order: %s" % sx.dumps(out[1])[:200])
        uniq = []
        for x in srt:
            if not uniq or py_key(uniq[-1]) != py_key(x):
                uniq.append(x)
        if out[3] != from_json(uniq):
            return ("pyref-unique", "unique: %s" % sx.dumps(out[3])[:200])
        want_idx = [i for i, x in enumerate(arr) if py_key(x) == py_key(1) and not isinstance(x, bool)]
        if out[4] != from_json(want_idx):
            return ("pyref-indices", "indices(1): %s want %s" % (sx.dumps(out[4]), want_idx))
        return None
    if out[1] != out[2]:
        inp = c["inputs"][0]
        has_err = any(isinstance(x, list) and x and x[0] == "O" for side in (out[1], out[2]) for x in side[1:])
        if c["kind"] in ("sort_by-stable", "min_by", "max_by", "group_by", "unique_by") and has_err and isinstance(inp, list) and len(inp) <= 2:
            # sort_by does not evaluate the key filter on arrays with fewer than two elements (std's sort_by_cached_key);
            # the reference formulations do: not covered by a documented equation
            return None
        return ("equation:" + c["kind"], "%s  =/=  %s : %s vs %s" % (c["eq"][0], c["eq"][1], sx.dumps(out[1])[:200], sx.dumps(out[2])[:200]))
    return None
