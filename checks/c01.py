"""C01: compiled filters compute the manual's semantics."""
import json
import core
import jq
import lut
import sx
from programs import Gen, Scope, INPUTS_SRC
from values import from_json

RULE = ("scope-aware random programs of the core language (every binder kind, shadowing, closures, recursion through tail and "
        "non-tail positions, label/break, try/catch, //, reduce/foreach, paths, updates, interpolation, object construction) "
        "x inputs; (i) compiled look-up table of the implementation == the model compiler's forest (Var indices, skip counts, "
        "definition wiring); (ii) output streams (first 64 items + terminator) implementation == model interpreter; "
        "non-trivial = distinct non-empty output stream")
PARTIAL = ["compile_correct / compile_defs (named semantics vs compiled machine) are proved for the binding core, paths, folds, "
           "label/break, definitions with variable and filter parameters (closures), objects and strings; formats, update operators and destructuring "
           "patterns are covered by the correspondence of tables and streams only"]
ASSUMPTIONS = ["the model interpreter (Core/Run.v) is the formal reading of the manual's left-to-right semantics",
               "tail-call optimisation is invisible (call types ignored here, compared in C04)"]
LIMIT = 64
FUEL = 500


def gen(ctx):
    rng, tier = ctx["rng"], ctx["tier"]
    n = 1500 if tier == "quick" else 30000
    g = Gen(rng, max_depth=5)
    inputs = [from_json(json.loads(s)) for s in INPUTS_SRC]
    cases = []
    for i in range(n):
        d = rng.choice([2, 3, 3, 4, 4, 5])
        p = g.term(Scope(), d)
        for _ in range(2):
            cases.append(dict(filter=p, inputs=[rng.choice(inputs)], kind="random-d%d" % d))
    # labels across recursion: a break must end the lexically matching label, also when it runs below (tail-)recursive calls
    # and inside labels entered later (user-written or those inside first/limit/isempty)
    for _ in range(150 if tier == "quick" else 3000):
        cases.append(dict(filter=label_rec(rng), inputs=[from_json(rng.choice([0, 1, [[[[1]]]], None]))], kind="label-rec"))
    # definitions that hand themselves (or a local helper that calls them back) on as a filter argument and also call
    # themselves in tail position: the closure must run the definition, with its calls caught where they belong
    for _ in range(120 if tier == "quick" else 2500):
        cases.append(dict(filter=closure_rec(rng), inputs=[from_json(rng.choice([[2, [1, 0]], [[3]], 2, [0, [1, [2]]], [], [[], 1], {"a": [1, 2]}]))], kind="closure-rec"))
    return cases


def closure_rec(rng):
    pick = rng.choice
    base = pick(['"z"', ".", "[.]", "(., -1)", "empty"])
    step = pick([". - 1", ". - 1", ". - 2"])
    num = '(type == "number") and . > 0'
    hof = pick(["map(@F)", "[.[] | @F]", "map_values(@F)", "[limit(5; .[] | @F)]", "(to_entries | map(.value | @F))", "[.[] | first(@F)]",
                "(def ap(h): [.[] | h]; ap(@F))", "(def ap(h): map(h); ap(@F))", "[.[] | @F | tostring]", "map(@F) | length", "[.[]? as $v | $v | @F]",
                "(def twice(h): [.[] | h | h]; twice(@F))", "any(.[]; @F == \"z\")", "[(.[0], .[-1]) | @F]"])
    cont = 'type == "array" or type == "object"'
    shape = pick([
        "def f: if %s then %s elif %s then (%s | f) else %s end; f" % (cont, hof.replace("@F", "f"), num, step, base),
        "def f: def g: if %s then (%s | f) else %s end; if %s then %s else g end; f" % (num, step, base, cont, hof.replace("@F", "g")),
        "def f: def g: if %s then (%s | g) else %s end; if %s then %s else g end; f" % (num, step, base, cont, hof.replace("@F", "f")),
        "def f(h): if %s then [.[] | h] elif %s then (%s | f(h)) else %s end; def k: f(k); k" % (cont, num, step, base),
        "def f: if %s then %s elif %s then (%s | f), 9 else %s end; f" % (cont, hof.replace("@F", "f"), num, step, base),
        "def f: if %s then (%s | f) elif %s then %s else %s end; f" % (num, step, cont, hof.replace("@F", "f"), base),
    ])
    return pick(["[%s]", "%s", "[limit(12; %s)]", "try [%s] catch \"c\""]) % shape


def label_rec(rng):
    pick = rng.choice
    outs = ["a"] if rng.random() < 0.6 else ["a", "b"]
    o = pick(outs)
    k = pick([1, 2, 3])
    step = pick([". + 1", ". + 1", "(. + 1, . + 2)" if False else ". + 2"])
    base = pick([
        "(label $i | (., break $%s, \"u\"))" % o,
        "(label $i | (., break $i, \"u\")), \"v\"",
        "(label $i | label $j | (., break $%s))" % o,
        "(label $i | (., (label $j | break $i), \"u\")), break $%s" % o,
        "first(., break $%s)" % o,
        "first((., 7) | (., break $%s))" % o,
        "limit(2; ., 8, break $%s)" % o,
        "[limit(1; ., break $%s)]" % o,
        "isempty(break $%s)" % o,
        "isempty(., break $%s), break $%s" % (o, o),
        "(label $i | first(break $%s, .))" % o,
        "(label $i | (., break $i)), (label $i | (., break $%s))" % o,
        ".",
    ])
    num = "(if type == \"number\" then . else 0 end)"
    driver = pick([
        "def f: if . < %d then (%s | f) else %s end; %s | f" % (k, step, base, num),
        "def f: if . < %d then ., (%s | f) else %s end; %s | f" % (k, step, base, num),
        "def f: if . < %d then (%s | f), \"nt\" else %s end; %s | f" % (k, step, base, num),
        "def f($n): if $n > 0 then f($n - 1) else %s end; %s | f(%d)" % (base, num, k),
        "def f(g): if . < %d then (%s | f(g)) else g end; %s | f(%s)" % (k, step, num, base),
        "%s | recurse(if . < %d then %s else empty end) | if . >= %d then %s else . end" % (num, k, step, k, base),
        "%s | recurse(if . < %d then %s else (%s | empty) end)" % (num, k, step, base),
        "%s | until(. >= %d; %s) | %s" % (num, k, step, base),
        "%s | while(. < %d; %s) | %s" % (num, k, step, base),
        "%s | first(repeat(%s) | select(. >= %d)) | %s" % (num, step, k, base),
        "%s | last(limit(%d; repeat(%s))) | %s" % (num, k + 1, step, base),
        "[range(%d)] | reduce .[] as $x (0; . + 1) | %s" % (k, base),
    ])
    body = "(%s), \"after\"" % driver
    for l in reversed(outs):
        body = "label $%s | (%s), \"out-%s\"" % (l, body, l)
    form = pick(["[%s]", "[%s]", "%s", "[(%s)?]", "[limit(6; %s)]", "[.[]? | %s] | length" if False else "[%s] | length", "try [%s] catch \"c\""])
    return form % body


def custom(ctx):
    """table equality on a sample of the same generator"""
    rng, tier = ctx["rng"], ctx["tier"]
    n = 600 if tier == "quick" else 8000
    g = Gen(rng, max_depth=5)
    progs = [g.term(Scope(), rng.choice([2, 3, 4, 5])) for _ in range(n)]
    env = [sx.loads(l) for l in open(jq.ENVFILE)]
    natives = [x[0] for x in env[0][1]]
    cases = []
    for i, p in enumerate(progs):
        cases.append(["l%d" % i, "lut", p.encode(), "all"])
        cases.append(["p%d" % i, "parse", p.encode()])
    impl = core.run_cases(core.JAQH, cases)
    mc = []
    for i, p in enumerate(progs):
        t = impl.get("p%d" % i)
        if isinstance(t, list) and t and t[0] == "ok":
            mc.append(["m%d" % i, "compile", t[1], []])
    model = jq.run_model_cases(mc)
    stats = dict(table_equal=0, table_diff=0, table_calltype_only=0, compile_error_both=0, table_skipped=0)
    disagreements = []
    distinct = set()
    for i, p in enumerate(progs):
        l = impl.get("l%d" % i)
        m = model.get("m%d" % i)
        if not (isinstance(l, list) and l):
            stats["table_skipped"] += 1
            continue
        if l[0] != "ok":
            if m is None or (isinstance(m, list) and m[0] == "forest" and m[1] != "0"):
                stats["compile_error_both"] += 1
            else:
                stats["table_diff"] += 1
                disagreements.append(dict(case=dict(filter=p, kind="table"), impl=l, model=["compiles"]))
            continue
        if not (isinstance(m, list) and m and m[0] == "forest") or m[1] != "0":
            stats["table_diff"] += 1
            disagreements.append(dict(case=dict(filter=p, kind="table"), impl=["compiles"], model=m))
            continue
        try:
            a = lut.Unfold(l[1].decode("utf-8", "replace"), natives).forest()
        except Exception as e:      # unknown shape of the dump: a changed compiler output format
            stats["table_diff"] += 1
            disagreements.append(dict(case=dict(filter=p, kind="table"), impl=["unreadable", str(e)], model=None))
            continue
        b = lut.renumber_model(m)
        if a == b:
            stats["table_equal"] += 1
            distinct.add(sx.dumps(a))
        else:
            if strip_ct(a) == strip_ct(b):
                stats["table_calltype_only"] += 1
            else:
                stats["table_diff"] += 1
                disagreements.append(dict(case=dict(filter=p, kind="table"), impl=a, model=b))
    # a table that differs is a broken correspondence, not yet a failing input: look for one by running the program on both sides
    tab = [d for d in disagreements if d["case"].get("kind") == "table"]
    if tab:
        inputs = [from_json(json.loads(s)) for s in INPUTS_SRC]
        bc = []
        for j, dd in enumerate(tab[:40]):
            for k, inp in enumerate(inputs[:6]):
                bc.append(dict(id="t%d_%d" % (j, k), filter=dd["case"]["filter"], inputs=[inp], kind="table-behaviour", j=j))
        res = jq.run_both(bc, limit=LIMIT, fuel=FUEL)
        differs = set()
        for c in bc:
            r = res[c["id"]]
            if jq.classify(r) == "disagree" and c["j"] not in differs:
                differs.add(c["j"])
                disagreements.append(dict(case=c, impl=r["impl"], model=r["model"]))
        for j, dd in enumerate(tab):
            if j not in differs:
                dd["noinput"] = True
        stats["table_diff_with_failing_input"] = len(differs)
    return dict(stats=stats, evaluations=len(progs), distinct=distinct, disagreements=disagreements,
                samples=[dict(filter=progs[0], table_equal=True)] if progs else [],
                coverage=dict(programs=len(progs)))


def strip_ct(t):
    if isinstance(t, list):
        if t and t[0] == "CallDef":
            return [strip_ct(x) for x in t[:4]]
        return [strip_ct(x) for x in t]
    return t


def disagreement_key(c, d):
    return "differs:" + c.get("kind", "?").split("-")[0]
