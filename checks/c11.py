"""C11: stream combinators and generators satisfy their defining equations."""
import itertools
from values import *
from values import from_json
import sx

RULE = ("defining equations of the manual, each as a pair (lhs, rhs) of programs whose output streams - items up to and including "
        "the first error - must be equal, over argument filters with 0..n outputs and embedded errors x counts around zero and "
        "the stream length (negative, fractional, huge, non-numeric) x inputs; both sides also run on the model; non-trivial = "
        "distinct stream")
ASSUMPTIONS = ["streams are compared as lists of outputs closed by the first error (error text included)"]
PARTIAL = []

ST = 'def st(f): [(try (f | [.]) catch {e: (. | tostring)})]; '

FS = ["empty", "1", "(1,2,3)", "(1,error(\"x\"),3)", "error(\"e\")", ".[]?", "(.[]? | . + 1)", "range(5)", "((1,2) | (., . * 10))",
      "null", "(false,null,1)", "[1,2]", "limit(3; repeat(7))", "(1,2,3,4,5,6,7)", "(\"a\",\"b\")", "({a:1},{b:2})", "(null,null)",
      "(1, 2, error(\"late\"))", "(error(\"early\"), 1)", ".", "(.[]? // 5)", "recurse(if . < 3 then .+1 else empty end; true)?"]
NS = ["-1", "0", "1", "2", "3", "4", "10", "1.5", "0.5", "-0.5", "1000000000000000000000000000000", "\"a\"", "null", "[]", "(1,2)", "(0,3)"]
CONDS = [".", ". == 1", ". > 1", "error(\"c\")", "null", "true", "(true,false)", "empty", "type == \"number\""]
INPUTS = ["null", "[1,2,3]", "0", "[]", "{\"a\":1,\"b\":null}", "[[1],[2,[3]]]", "2", "\"x\"", "[false,null]"]


def eqs():
    E = []
    for f, n in itertools.product(FS, NS):
        numeric = n[0] in "-0123456789"
        if not numeric:
            # non-numeric / multi-valued counts: outside the equations; implementation vs model only
            E.append(("count-misc", "limit(%s; %s)" % (n, f), "limit(%s; %s)" % (n, f)))
            E.append(("count-misc", "skip(%s; %s)" % (n, f), "skip(%s; %s)" % (n, f)))
            continue
        E.append(("limit-skip", "(limit(%s; %s), skip(%s; %s))" % (n, f, n, f), f))
        E.append(("nth", "nth(%s; %s)" % (n, f), "first(skip(%s; %s))" % (n, f)))
        E.append(("limit-def", "limit(%s; %s)" % (n, f),
                  "(%s) as $n | if $n <= 0 then empty else label $out | foreach (%s) as $x ($n; . - 1; if . <= 0 then $x, break $out else $x end) end" % (n, f)))
    for f in FS:
        E.append(("first", "first(%s)" % f, "limit(1; %s)" % f))
        E.append(("first-label", "first(%s)" % f, "label $o | (%s | ., break $o)" % f))
        E.append(("last", "last(%s)" % f, "[%s] | if length == 0 then empty else .[-1] end" % f))
        E.append(("isempty", "isempty(%s)" % f, "first((%s | false), true)" % f))
        E.append(("add", "add(%s)" % f, "reduce (%s) as $x (null; . + $x)" % f))
        E.append(("reduce-expand3", "reduce (1,2,3) as $x (0; (%s) as $y | . + $x)" % f,
                  "0 | (1 as $x | (%s) as $y | . + $x) | (2 as $x | (%s) as $y | . + $x) | (3 as $x | (%s) as $y | . + $x)" % (f, f, f)))
        E.append(("foreach-expand", "foreach (1,2) as $x (0; (%s | tostring | length) + $x; [$x, .])" % f,
                  "0 | (1 as $x | ((%s | tostring | length) + $x) | ([$x, .], (2 as $x | ((%s | tostring | length) + $x) | [$x, .])))" % (f, f)))
        E.append(("foreach2", "foreach (%s) as $x (0; . + 1)" % f, "foreach (%s) as $x (0; . + 1; .)" % f))
        E.append(("select", "(%s) | select(. == 1)" % f, "(%s) | if . == 1 then . else empty end" % f))
        E.append(("repeat", "limit(6; repeat(%s))" % f, "limit(6; def rec: (%s), rec; rec)" % f))
        E.append(("recurse1", "limit(8; recurse(%s | numbers | select(. < 4) | . + 1))" % f, "limit(8; def r: ., (%s | numbers | select(. < 4) | . + 1 | r); r)" % f))
        for c in CONDS:
            E.append(("any", "any(%s; %s)" % (f, c), "isempty(%s | (%s) or empty) | not" % (f, c)))
            E.append(("all", "all(%s; %s)" % (f, c), "isempty(%s | (%s) and empty)" % (f, c)))
    rng_args = ["0", "1", "5", "-3", "2.5", "0.5", "-1", "\"\"", "\"aa\"", "\"a\"", "[]", "[1,1]", "[1]", "null", "10", "3"]
    for a, b, c in itertools.product(rng_args, repeat=3):
        wdef = ("(%s) as $from | (%s) as $to | (%s) as $by | $from | if $by > 0 then while(. < $to; . + $by) "
                "elif $by < 0 then while(. > $to; . + $by) else while(. != $to; . + $by) end") % (a, b, c)
        E.append(("range3", "limit(12; range(%s; %s; %s))" % (a, b, c), "limit(12; %s)" % wdef))
    for a, b in itertools.product(rng_args, repeat=2):
        E.append(("range2", "limit(12; range(%s; %s))" % (a, b), "limit(12; range(%s; %s; 1))" % (a, b)))
    for a in rng_args:
        E.append(("range1", "limit(12; range(%s))" % a, "limit(12; range(0; %s))" % a))
    for c in CONDS[:6]:
        E.append(("while", "limit(6; 0 | while(. < 3 and (%s | not | not); . + 1))" % c,
                  "limit(6; 0 | def rec: if (. < 3 and (%s | not | not)) then ., (. + 1 | rec) else empty end; rec)" % c))
        E.append(("until", "0 | until(. >= 3 or (%s | not); . + 1)" % c,
                  "0 | def rec: if (. >= 3 or (%s | not)) then . else . + 1 | rec end; rec" % c))
    for upd in [". + 1", "(. + 1, . + 2)", "empty", "(. + 2, . + 1)", "error(\"u\")", "if . < 2 then (. + 1, . + 1) else . + 1 end"]:
        for cnd in [". >= 3", "(. >= 3, . >= 2)", "(. >= 3, true)", ". >= 3 or error(\"c\")", "(false, . >= 2)", "empty", "null", ". > 100"]:
            E.append(("until-multi", "limit(40; 0 | until(%s; %s))" % (cnd, upd),
                      "limit(40; 0 | def rec: if (%s) then . else (%s) | rec end; rec)" % (cnd, upd)))
            wc = cnd.replace(">=", "<")
            E.append(("while-multi", "limit(40; 0 | while(%s; %s))" % (wc, upd),
                      "limit(40; 0 | def rec: if (%s) then ., ((%s) | rec) else empty end; rec)" % (wc, upd)))
            E.append(("recurse-multi", "limit(40; 0 | recurse(%s | select(. < 4); %s))" % (upd, wc),
                      "limit(40; 0 | def r: ., (((%s | select(. < 4)) | select(%s)) | r); r)" % (upd, wc)))
    # reduce / foreach against the nested-pipe expansion when the update yields several outputs at one step and none at another
    # (empties of every shape: `empty`, an empty iteration, limit(0; _), a false select, ...)
    multi = ["(., . + 1)", "(. + 1, . + 2, . + 3)", ". + $x", "(., .)"]
    none = ["empty", "{}[]", "[][]", "limit(0; .)", "first(empty)", "select(false)", "(.. | strings)", "if true then empty else . end"]
    for mu, no in itertools.product(multi, none):
        for k, cond in itertools.product(["1", "2", "3"], ["", " and . == 0", " and . > 0"]):
            upd = "if $x == %s%s then %s else %s end" % (k, cond, no, mu)
            step = lambda i: "(%s as $x | %s)" % (i, upd)
            E.append(("reduce-multi", "[reduce (1,2,3) as $x (0; %s)]" % upd, "[0 | %s | %s | %s]" % (step(1), step(2), step(3))))
            E.append(("foreach-multi", "[foreach (1,2,3) as $x (0; %s)]" % upd,
                      "[0 | %s | (., (%s | (., %s)))]" % (step(1), step(2), step(3))))
            E.append(("foreach3-multi", "[foreach (1,2,3) as $x (0; %s; [$x, .])]" % upd,
                      "[0 | %s | ([1, .], (%s | ([2, .], (%s | [3, .]))))]" % (step(1), step(2), step(3))))
    E.append(("recurse0", "[recurse]", "[recurse(.[]?)]"))
    E.append(("dotdot", "[..]", "[recurse]"))
    E.append(("recurse2", "[limit(9; recurse(.[]?; . != 2))]", "[limit(9; recurse(.[]? | select(. != 2)))]"))
    E.append(("empty", "empty", "({}[] as $x | .)"))
    E.append(("error0", "error", "error(.)"))
    return E


def gen(ctx):
    rng, tier = ctx["rng"], ctx["tier"]
    E = eqs()
    if tier == "quick":
        heavy = [e for e in E if e[0] in ("range3",)]
        light = [e for e in E if e[0] not in ("range3",)]
        rng.shuffle(heavy)
        rng.shuffle(light)
        multi = [e for e in light if e[0].endswith("-multi")]
        light = [e for e in light if not e[0].endswith("-multi")]
        E = light[:1600] + heavy[:450] + multi
    cases = []
    for kind, lhs, rhs in E:
        inp = from_json(__import__("json").loads(rng.choice(INPUTS)))
        cases.append(dict(filter=ST + "[st(%s), st(%s)]" % (lhs, rhs), inputs=[inp], kind=kind, eq=(lhs, rhs)))
    return cases


def oracle(c, impl, model=None):
    if isinstance(impl, list) and impl and impl[0] in ("panic", "crash"):
        return ("panic:" + c["kind"], "panicked: " + sx.dumps(impl)[:200])
    if not (isinstance(impl, list) and impl and impl[0] == "out" and impl[2] == "end" and len(impl[1]) == 1):
        return None
    out = impl[1][0]
    if out[1] != out[2]:
        return ("equation:" + c["kind"], "%s  =/=  %s : %s vs %s" % (c["eq"][0], c["eq"][1], sx.dumps(out[1])[:200], sx.dumps(out[2])[:200]))
    return None
