"""C04: tail-recursive definitions run in constant stack and constant memory."""
import os
import subprocess
import core
import jq
import cli
import sx
import lut
from values import *

RULE = ("random nests of definitions (depth <= 3, up to 3 siblings per level) whose recursive calls - to themselves, to any enclosing "
        "definition, through children and earlier siblings - all stand in tail position under random stacks of the tail contexts (right of "
        "`|`, of `as $x |`, either side of `,`, right of `//`, then/elif/else branches, foreach projection, after a local def), counter in "
        "`.` or in a variable argument, with and without a variable and a filter argument handed on; (1) the compiled table of the "
        "implementation against the model compiler's forest, call types included, and no call that expands thrown calls of others "
        "(CatchAll) may appear; (2) the binary under a 512 KB stack with N and 2N iterations: result, exit status, and peak resident "
        "memory growth between N and 2N; run for values, under first/limit/label, and for paths; the built-in loops; non-trivial = "
        "distinct nest")
ASSUMPTIONS = ["peak resident set size (/usr/bin/time -f %M style, via wait4) as the measure of retained heap; the stack limit as the bound of the native stack"]
PARTIAL = ["the theorems are about where the compiler model lets tail calls through (which subterms inherit the set of tail-callable "
           "definitions, and that a permitted call to an enclosing definition is compiled as a thrown tail call); that the interpreter "
           "then runs in constant stack and heap is measured on the implementation, not proved"]

CTX_ANY = ["(. | @X)", "(. as $v | @X)", "(empty, @X)", "(null // @X)", "(false // @X)", "if true then @X else . end", "if false then . else @X end",
           "if false then . elif true then @X else . end", "foreach 1 as $s (.; .; @X)", "(def aux: .; @X)", "(def aux($q): $q; @X)", "(1 as $one | . | @X)",
           # destructuring bindings are bindings: what stands to their right is in tail position as well
           "([.] as [$v] | @X)", "({a: .} as {a: $v} | @X)", "({a: .} as {$a} | @X)", "([., 1] as [$v, $w] | @X)"]


class Def:
    def __init__(self, name):
        self.name = name
        self.children = []
        self.parent = None
        self.index = 0


def build_tree(rng, depth, counter=[0]):
    def mk(parent, level):
        counter[0] += 1
        d = Def("f%d" % counter[0])
        d.parent = parent
        if level < depth:
            for i in range(rng.choice([0, 1, 1, 2, 3] if level > 0 else [1, 1, 2, 3])):
                c = mk(d, level + 1)
                c.index = i
                d.children.append(c)
        return d
    counter[0] = 0
    return mk(None, 0)


NO_FOREACH = [False]


def wrap(rng, x, n=None):
    for _ in range(rng.choice([0, 1, 1, 2, 3]) if n is None else n):
        c = rng.choice(CTX_ANY)
        if NO_FOREACH[0] and "foreach" in c:
            continue
        x = c.replace("@X", x)
    return x


def nest_text(rng, root, mode, with_var, with_fun):
    """-> (program text with @N, number of stepping call sites)"""
    sites = [0]
    params = []
    if mode == "var":
        params.append("$n")
    if with_var:
        params.append("$a")
    if with_fun:
        params.append("g")
        if rng.random() < 0.4:
            params.append("h")          # a second filter parameter, handed on as well
    rng.shuffle(params)                 # filter parameters also in non-last positions
    sig = "(" + "; ".join(params) + ")" if params else ""

    def call(target, step):
        args = []
        for p in params:
            if p == "$n":
                args.append("$n + 1" if step else "$n")
            else:
                args.append(p)
        c = target.name + ("(" + "; ".join(args) + ")" if args else "")
        if mode == "dot" and step:
            c = "(%s | %s)" % ("g" if with_fun and rng.random() < 0.5 else ". + 1", c)
        return c

    def pick_call(d):
        anc = []
        a = d
        while a is not None:
            anc.append(a)
            a = a.parent
        earlier = [s for s in (d.parent.children if d.parent else []) if s.index < d.index]
        opts = [(t, True) for t in anc] + [(t, False) for t in d.children] + [(t, False) for t in earlier]
        t, step = rng.choice(opts)
        if step:
            sites[0] += 1
        return wrap(rng, call(t, step))

    def text(d):
        kids = " ".join(text(c) for c in d.children)
        cnt = "$n" if mode == "var" else "."
        stop = "%s >= @N" % cnt
        res = ".a" if mode == "var" else "."
        if rng.random() < 0.3:
            cont = "if (%s %% 2) == 0 then %s else %s end" % (cnt, pick_call(d), pick_call(d))
        else:
            cont = pick_call(d)
        if rng.random() < 0.5:
            body = "if %s then %s else %s end" % (stop, res, cont)
        else:
            body = "if %s | not then %s else %s end" % (stop, cont, res)
        return "def %s%s: %s %s;" % (d.name, sig, kids, wrap(rng, body, rng.choice([0, 0, 1])))

    args = []
    for p in params:
        args.append({"$n": "0", "$a": "\"v\"", "g": ". + 1" if mode == "dot" else ".", "h": ". + 2"}[p])
    top = root.name + ("(" + "; ".join(args) + ")" if args else "")
    return text(root) + " " + top, sites[0]


BUILTIN_LOOPS = [("last(range(@N))", "@N-1"), ("reduce limit(@N; repeat(1)) as $x (0; . + 1)", "@N"), ("@N | until(. == 0; . - 1)", "0"), ("last(0 | recurse(if . < @N then . + 1 else empty end))", "@N"),
                 ("last(0 | while(. < @N; . + 1))", "@N-1"), ("first(0 | recurse(. + 1) | select(. == @N))", "@N"), ("reduce range(0; @N; 1) as $x (0; . + 1)", "@N"), ("last(range(0; @N; 1))", "@N-1"),
                 ("last(limit(@N; 0 | recurse(. + 1)))", "@N-1"), ("nth(@N; 0 | recurse(. + 1))", "@N"), ("reduce (0 | recurse(if . < @N then . + 1 else empty end; true)) as $x (0; . + 1)", "@N+1"),
                 ("last(limit(@N; 0 | repeat(. + 1)))", "1"), ("first(range(@N; infinite))", "@N"), ("last(foreach range(@N) as $x (0; . + 1))", "@N"), ("reduce range(@N) as $x (0; . + 1)", "@N"),
                 ("0 | until(. >= @N; . + 1)", "@N"), ("[range(@N) | select(. % 1000 == 0)] | length", "@N/1000")]


def measure_rss(argv, stdin=b"", stack_kb=512, timeout=120):
    sh = "ulimit -s %d; exec /usr/bin/time -f 'RSSKB %%M' \"$0\" \"$@\"" % stack_kb
    p = subprocess.Popen(["/bin/sh", "-c", sh] + argv, stdin=subprocess.PIPE, stdout=subprocess.PIPE, stderr=subprocess.PIPE, start_new_session=True)
    try:
        out, err = p.communicate(stdin, timeout=timeout)
    except subprocess.TimeoutExpired:
        import signal
        try:
            os.killpg(p.pid, signal.SIGKILL)      # /usr/bin/time and the program it runs
        except ProcessLookupError:
            pass
        p.communicate()
        return -999, b"", 0, b"timeout"
    rss = 0
    for ln in err.split(b"\n"):
        if ln.startswith(b"RSSKB "):
            rss = int(ln.split()[1])
    return p.returncode, out, rss, err


def custom(ctx):
    rng, tier = ctx["rng"], ctx["tier"]
    J = cli.jaq_bin()
    stats = dict(table_equal=0, table_diff=0, run_ok=0)
    viol = []
    disagreements = []
    distinct = set()
    K = 40 if tier == "quick" else 400
    N = 100000 if tier == "quick" else 400000
    nests = []
    for i in range(K):
        mode = rng.choice(["dot", "var"])
        NO_FOREACH[0] = i % 2 == 0
        root = build_tree(rng, rng.choice([1, 2, 2, 3]))
        t, sites = nest_text(rng, root, mode, rng.random() < 0.4, rng.random() < 0.4)
        nests.append(dict(text=t, mode=mode, sites=sites))
        distinct.add(t)
    # (1) tables
    env = [sx.loads(l) for l in open(jq.ENVFILE)]
    natives = [x[0] for x in env[0][1]]
    cases = [["base", "lut", b".", "all"]]
    for i, n in enumerate(nests):
        small = n["text"].replace("@N", "3").encode()
        cases += [["l%d" % i, "lut", small, "all"], ["p%d" % i, "parse", small]]
    impl = core.run_cases(core.JAQH, cases)
    base_catchall = impl["base"][1].count(b"CatchAll") if isinstance(impl.get("base"), list) and impl["base"][0] == "ok" else None
    mc = []
    for i, n in enumerate(nests):
        t = impl.get("p%d" % i)
        if isinstance(t, list) and t and t[0] == "ok":
            mc.append(["m%d" % i, "compile", t[1], []])
    model = jq.run_model_cases(mc)
    for i, n in enumerate(nests):
        l, m = impl.get("l%d" % i), model.get("m%d" % i)
        c = l
        if not (isinstance(l, list) and l and l[0] == "ok" and isinstance(c, list) and c[0] == "ok"):
            viol.append(dict(key="nest-rejected", what="the nest is not compiled: %s -> %s / %s" % (n["text"], sx.dumps(l)[:60], sx.dumps(c)[:60]), case=dict(filter=n["text"], kind="nest"), impl=l))
            continue
        extra = c[1].count(b"CatchAll") - (base_catchall or 0)
        throws = c[1].count(b"Throw") - (impl["base"][1].count(b"Throw") if base_catchall is not None else 0)
        if extra != 0 or throws < n["sites"]:
            viol.append(dict(key="calltype", what="a nest whose recursive calls are all in tail position is compiled with %d CatchAll calls and %d thrown calls (%d recursive call sites): %s" % (extra, throws, n["sites"], n["text"].replace("@N", "3")),
                             case=dict(filter=n["text"].replace("@N", "3"), kind="nest-table"), impl=None, nest=i))
        if not (isinstance(m, list) and m and m[0] == "forest" and m[1] == "0"):
            stats["table_diff"] += 1
            disagreements.append(dict(case=dict(filter=n["text"].replace("@N", "3"), kind="table"), impl=["compiles"], model=m, nest=i))
            continue
        try:
            a = lut.Unfold(l[1].decode("utf-8", "replace"), natives).forest()
        except Exception as e:
            stats["table_diff"] += 1
            disagreements.append(dict(case=dict(filter=n["text"].replace("@N", "3"), kind="table"), impl=["unreadable", str(e)], model=None, nest=i))
            continue
        b = lut.renumber_model(m)
        if a == b:
            stats["table_equal"] += 1
        else:
            stats["table_diff"] += 1
            disagreements.append(dict(case=dict(filter=n["text"].replace("@N", "3"), kind="table"), impl=a, model=b, nest=i))
    # (2) the binary under a small stack
    jobs = []
    for i, n in enumerate(nests):
        modes = [("values", "@P", None)]
        modes.append(rng.choice([("first", "first(@P)", None), ("limit", "limit(1; @P)", None), ("label", "label $out | (@P) | ., break $out", None)]))
        if n["mode"] == "var":
            modes.append(("paths", "path(@P)", b'["a"]'))
        for mname, wrapper, want in modes:
            for k in (1, 2):
                prog = wrapper.replace("@P", "(" + n["text"] + ")").replace("@N", str(k * N))
                inp = b'{"a": 7}' if n["mode"] == "var" else b"0"
                expect = want if want is not None else (b"7" if n["mode"] == "var" else str(k * N).encode())
                jobs.append(dict(prog=prog, inp=inp, expect=expect, nest=i, mode=mname, k=k))
    for src, want in BUILTIN_LOOPS:
        for k in (1, 2):
            n_ = k * N
            w = want.replace("@N", str(n_))
            expect = str(eval(w.replace("/", "//"))).encode() if w != "[]" else b"[]"
            jobs.append(dict(prog=src.replace("@N", str(n_)), inp=b"null", expect=expect, nest=None, mode="builtin:" + src, k=k))
    import concurrent.futures
    with concurrent.futures.ThreadPoolExecutor(max_workers=core.NCPU) as ex:
        results = list(ex.map(lambda j: measure_rss([J, "-c", j["prog"]], j["inp"]), jobs))
    by = {}
    for j, (rc, out, rss, err) in zip(jobs, results):
        by[(j["nest"], j["mode"], j["k"])] = (rc, out, rss)
        if rc != 0 or out.strip() != j["expect"]:
            why = "stack overflow" if b"overflow" in err else ("time-out" if rc == -999 else "")
            viol.append(dict(key="run:%s" % (j["mode"] if j["nest"] is None else j["mode"]), what="with %d iterations under a 512 KB stack: status %d %s, output %r, expected %r: %s" % (j["k"] * N, rc, why, out[:60], j["expect"], j["prog"][:600]),
                             case=dict(filter=j["prog"], kind="tail-run", stdin=j["inp"].decode()), impl=None))
        else:
            stats["run_ok"] += 1
    for (nest, mode, k), (rc, out, rss) in by.items():
        if k != 1:
            continue
        rc2, out2, rss2 = by[(nest, mode, 2)]
        if rc == 0 and rc2 == 0 and rss and rss2 and rss2 - rss > 8192:
            j = [x for x in jobs if x["nest"] == nest and x["mode"] == mode and x["k"] == 2][0]
            viol.append(dict(key="heap:foreach-projection" if "foreach" in j["prog"] and not mode.startswith("builtin") else "heap:%s" % mode, what="peak memory grows with the number of iterations: %d KB at N=%d, %d KB at 2N: %s" % (rss, N, rss2, j["prog"][:600]),
                             case=dict(filter=j["prog"], kind="tail-run", stdin=j["inp"].decode()), impl=None))
        else:
            stats["heap_ok"] = stats.get("heap_ok", 0) + 1
    # a table or call type that differs is a broken correspondence; the failing input is a run of that nest that overflows,
    # answers wrongly or grows: without one the finding is reported as such
    bad_nests = set()
    for j, (rc, out, rss, err) in zip(jobs, results):
        if j["nest"] is not None and (rc != 0 or out.strip() != j["expect"]):
            bad_nests.add(j["nest"])
    for (nest, mode, k), (rc, out, rss) in by.items():
        if k == 1 and nest is not None:
            rc2, out2, rss2 = by[(nest, mode, 2)]
            if rc == 0 and rc2 == 0 and rss and rss2 and rss2 - rss > 8192:
                bad_nests.add(nest)
    for x in viol + disagreements:
        if "nest" in x and x["nest"] not in bad_nests:
            x["noinput"] = True
    rs = [r[2] for r in results if r[2]]
    return dict(stats=stats, evaluations=len(cases) + len(jobs), distinct=distinct, violations=viol, disagreements=disagreements,
                samples=[dict(nest=nests[0]["text"][:800])], coverage=dict(nests=K, iterations=[N, 2 * N], stack_kb=512, peak_rss_kb_max=max(rs) if rs else 0, peak_rss_kb_min=min(rs) if rs else 0))
