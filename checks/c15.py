"""C15: parsing depends only on tokens and the documented grammar, precedence and sugar."""
import itertools
import json
import core
import jq
import sx
from values import *
from values import from_json
from programs import Gen, Scope, INPUTS_SRC

RULE = ("(i) every ordered pair and triple of the 25 binary operators (bindings included): the parse tree of `a o1 b o2 c [o3 d]` equals "
        "the tree of the text with the parentheses the manual's table implies (Python reference of the table) and the tree the Coq "
        "model of precedence climbing builds; random chains up to length 8 likewise; (ii) generated programs re-rendered with random "
        "whitespace, newlines, comments (with the backslash continuation rule) and redundant parentheses parse to the same tree; "
        "(iii) every documented shorthand against its expansion (same outputs on inputs, implementation and model); (iv) malformed "
        "programs are rejected; non-trivial = distinct tree")
ASSUMPTIONS = ["jaq's own Debug-free parse tree dump (harness `parse`) is the observation of the parser"]
PARTIAL = ["the atom grammar (strings, paths, objects, definitions) is checked by correspondence and expansion equalities, not proved; "
           "proved: operator layer (sequence preservation for all chains, table for all pairs and triples)"]

OPS = ["|", ",", "as", "=", "|=", "+=", "-=", "*=", "/=", "%=", "//=", "//", "or", "and", "==", "!=", "<", "<=", ">", ">=", "+", "-", "*", "/", "%"]
LEVELS = [["|"], [","], ["as"], ["=", "|=", "+=", "-=", "*=", "/=", "%=", "//="], ["//"], ["or"], ["and"], ["==", "!="], ["<", "<=", ">", ">="], ["+", "-"], ["*", "/"], ["%"]]
LEVEL = {o: i for i, g in enumerate(LEVELS) for o in g}
RIGHT = {o for o in OPS if LEVEL[o] in (0, 2, 3)}


def optext(o, k):
    return "as $v%d |" % k if o == "as" else o


def render(ops):
    """`0 o1 1 o2 2 ...`"""
    parts = ["0"]
    for i, o in enumerate(ops):
        parts += [optext(o, i), str(i + 1)]
    return " ".join(parts)


def reference(ops):
    """fully parenthesised text by the manual's table: bindings take everything to their right; otherwise higher levels bind tighter,
    `|` and assignments group to the right, the rest to the left"""
    atoms = [str(i) for i in range(len(ops) + 1)]

    def build(lo, hi):      # operands lo..hi (inclusive), operators lo..hi-1
        if lo == hi:
            return atoms[lo]
        # a binding: everything right of it belongs to it; split at the loosest operator left of the first binding that is looser than `as`
        idx = list(range(lo, hi))
        first_as = next((i for i in idx if ops[i] == "as"), None)
        cand = idx if first_as is None else [i for i in idx if i <= first_as]
        m = min(LEVEL[ops[i]] for i in cand)
        pos = [i for i in cand if LEVEL[ops[i]] == m]
        if first_as is not None and LEVEL["as"] == m:
            split = first_as
        else:
            split = pos[0] if ops[pos[0]] in RIGHT else pos[-1]
            if first_as is not None and split > first_as:
                split = first_as
        return "(%s %s %s)" % (build(lo, split), optext(ops[split], split), build(split + 1, hi))
    return build(0, len(ops))


def tree_of_model(t, ops):
    """model tree ((0 "+" 1) ...) -> comparable nested tuples"""
    if isinstance(t, str):
        return int(t)
    return (tree_of_model(t[0], ops), t[1].decode(), tree_of_model(t[2], ops))


def tree_of_impl(t):
    """jaq parse tree of an operator chain over number atoms -> nested tuples"""
    if t[0] == "Num":
        return int(t[1])
    if t[0] == "BinOp":
        op = t[2]
        name = {"Pipe": "|", "Comma": ",", "Alt": "//", "Or": "or", "And": "and", "Assign": "=", "Update": "|=", "UpdateAlt": "//=", "Bind": "as"}.get(op[0])
        if op[0] == "Math":
            name = {"Add": "+", "Sub": "-", "Mul": "*", "Div": "/", "Rem": "%"}[op[1]]
        if op[0] == "UpdateMath":
            name = {"Add": "+=", "Sub": "-=", "Mul": "*=", "Div": "/=", "Rem": "%="}[op[1]]
        if op[0] == "Cmp":
            name = {"Eq": "==", "Ne": "!=", "Lt": "<", "Le": "<=", "Gt": ">", "Ge": ">="}[op[1]]
        return (tree_of_impl(t[1]), name, tree_of_impl(t[3]))
    raise ValueError(t[0])


def trivia(rng):
    r = rng.random()
    if r < 0.4:
        return " "
    if r < 0.55:
        return "\n"
    if r < 0.65:
        return "\t \r\n"
    if r < 0.8:
        return " # a comment | , ( \" \n"
    if r < 0.86:
        return rng.choice([" # a comment ending in backslash and blank \\ \n", " # tab after backslash \\\t\n", " # two backslashes and a blank \\\\ \n", " # c:\\tmp\\ \r\n"])
    if r < 0.93:
        return " # continued \\\n still a comment \\\\\n "
    return "  #\\\\\\\n more \n"


SUGAR = [
    (".a.b", ".a | .b"), (".\"a\"", ".[\"a\"]"), (".a", ".[\"a\"]"), (".[\"a\"].b[0]", ".[\"a\"] | .b | .[0]"), (".a[]", ".a | .[]"), (".[]?", "try .[]"),
    (".a?", "try .a"), ("..", "recurse"), ("{a}", "{\"a\": .a}"), ("{a, b: 1}", "{\"a\": .a} + {\"b\": 1}"), ("1 as $x | {$x}", "1 as $x | {\"x\": $x}"),
    ("{\"a\\(1 + 1)\": 3}", "{(\"a\" + (1 + 1 | tostring)): 3}"), ("{(\"a\", \"b\"): (1, 2)}", "(\"a\", \"b\") as $k | (1, 2) as $v | {($k): $v}"),
    ("\"x y\" | {@uri \"q=\\(.)\": 1}", "\"x y\" | {(@uri \"q=\\(.)\"): 1}"), ("{\"kMQ==\": 7} | .@base64 \"k\\(1)\"", "{\"kMQ==\": 7} | .[(@base64 \"k\\(1)\")]"),
    ("{\"kMQ==\": 7} | . as {@base64 \"k\\(1)\": $x} | $x", "{\"kMQ==\": 7} | .[(@base64 \"k\\(1)\")] as $x | $x"), ("{@json \"a\\(\"b\")\"}", "{(@json \"a\\(\"b\")\"): .[(@json \"a\\(\"b\")\")]}"),
    ("{\"a\\(1,2)\": 0}", "{(\"a\" + (1,2 | tostring)): 0}"), ("{\"a\"}", "{\"a\": .a}"), ("{\"a\\(1)\"}", "{(\"a1\"): .a1}"), ("{@text \"v\"}", "{\"v\": .v}"),
    ("{if: 1, then: 2, reduce: 3, def: 4, and: 5}", "{\"if\": 1, \"then\": 2, \"reduce\": 3, \"def\": 4, \"and\": 5}"),
    ("if . then 1 elif .a? then 2 else 3 end", "if . then 1 else (if .a? then 2 else 3 end) end"), ("if . then 1 end", "if . then 1 else . end"),
    ("if .a? then 1 elif false then 2 end", "if .a? then 1 else (if false then 2 else . end) end"),
    ("\"x\\(1, 2)y\\(.)\"", "(1, 2) as $a | . as $b | \"x\" + ($a | tostring) + \"y\" + ($b | tostring)" if False else "\"x\" + ((1, 2) | tostring) + (\"y\" + (. | tostring))"),
    ("@json \"v=\\(.)\"", "\"v=\" + (. | @json)"), ("@text \"a\\([1])\"", "\"a\" + ([1] | @text)"),
    ("def f($x): $x + 1; f(1, 2)", "def f(x): x as $x | $x + 1; f(1, 2)"), ("def f($x; g): [$x, g]; f(1, 2; 3, 4)", "def f(x; g): x as $x | [$x, g]; f(1, 2; 3, 4)"),
    ("[1, [2, 3]] as [$a, [$b]] | [$a, $b]", "[1, [2, 3]] as $t | $t[0] as $a | $t[1][0] as $b | [$a, $b]"),
    ("{\"a\": 1, \"b\": {\"c\": 2}} as {a: $x, b: {c: $y}} | [$x, $y]", "{\"a\": 1, \"b\": {\"c\": 2}} as $t | $t.a as $x | $t.b.c as $y | [$x, $y]"),
    ("{\"k\": 5} as {$k} | $k", "{\"k\": 5} as $t | $t.k as $k | $k"), ("{\"a\": 1} as {(\"a\", \"b\"): $v} | $v", "{\"a\": 1} as $t | (\"a\", \"b\") as $key | $t[$key] as $v | $v"),
    ("reduce (1, 2, 3) as $x (0; . + $x)", "0 | (1 as $x | . + $x) | (2 as $x | . + $x) | (3 as $x | . + $x)"),
    ("foreach (1, 2) as $x (0; . + $x)", "foreach (1, 2) as $x (0; . + $x; .)"), ("foreach (1, 2) as $x (0; . + $x; [$x, .])", "0 | (1 as $x | . + $x | ([$x, .], (2 as $x | . + $x | [$x, .])))"),
    ("try error(1)", "try error(1) catch empty"), ("(error(1))?", "try error(1)"), ("[.[]?]", "[try .[]]"), ("[]", "[empty]"), ("-1", "-(1)"), ("- .a?", "-(.a?)"), ("-.[0]", "-(.[0])"),
    ("1 as $x | 2 as $y | [$x, $y]", "1 as $x | (2 as $y | [$x, $y])"), ("def f: 1; def g: 2; f + g", "def f: 1; (def g: 2; (f + g))"), ("label $l | 1, break $l, 2", "label $l | (1, break $l, 2)"),
    ("reduce .[]? as $x (0; . + 1) | . + 1", "(reduce .[]? as $x (0; . + 1)) | . + 1"), (".[1:][0]", ".[1:] | .[0]"), (".a[1:2]?", "try (.a | .[1:2])" if False else ".a | .[1:2]?"),
    ("\"\\u00e9\\n\\t\\\"\\\\\\/\"", "[233, 10, 9, 34, 92, 47] | implode"), ("[1.5e1, 1E1, 0.5] == [15.0, 10.0, 0.5]", "true"),
]

REJECT = ["1 +", "(1", "[1", "{a", "1 2", ". .", "if 1 then 2", "if 1 then 2 else 3", "reduce . as $x (0)", "foreach . as $x (0)", "def f: 1", "def f(): 1; f", "{(1)}", "{a:}", ".[", ".a.", "1 as x | 2",
          "1 as $x", "try", "label | 1", "label x | 1", "break", "| 1", "1 |", ", 1", "\"abc", "\"\\q\"", "\"\\u12\"", "\"\\ud800\"", "@", "$", "1 === 2", "1 <> 2", "1 =< 2", "{a b}", "[1,,2]", "f(;)", "f(1;)",
          ".a[1:2:3]", "..a", "1 as [$x | 2", "1 as {$x | 2", "reduce", "else", "end", "then 1", "}", ")", "]", "\\", "1 # c \\\n 2 \n 3", "&", "^", "1 ! 2", "import", "include 1;", "$__prog_args__x y"]
# arities the grammar documents: reduce takes 2 arguments, foreach 2 or 3; any other number - wherever the fold stands, whatever its pattern -
# is rejected at compile time and never silently reinterpreted; likewise calls of defined names with a number of arguments nobody defined,
# undefined variables and labels (all found without running anything: the prefix `empty |` must not hide them)
for _pre in ["", "empty | ", "[", "1 as $y | ", "def f: ", "if . then 1 else "]:
    _post = {"[": "]", "def f: ": "; 1", "if . then 1 else ": " end"}.get(_pre, "")
    for _pat in ["$x", "[$x]", "{a: $x}"]:
        for _args in ["()", "(0)", "(0; . + 1; . * 10)", "(0; . + 1; nosuchfilter)", "(0; 1; 2; 3)"]:
            REJECT.append("%sreduce (1, 2) as %s %s%s" % (_pre, _pat, _args, _post))
        for _args in ["()", "(0)", "(0; 1; 2; 3)", "(0; 1; 2; 3; 4)"]:
            REJECT.append("%sforeach (1, 2) as %s %s%s" % (_pre, _pat, _args, _post))
REJECT += ["limit(1)", "first(1; 2)", "empty(1)", "range(1; 2; 3; 4)", "empty | nosuchfilter", "empty | $nosuchvar", "empty | break $nosuchlabel", "def f(g): g; f", "def f(g): g; f(1; 2)",
           "def f($a): $a; f", "recurse(1; 2; 3)", "empty | [limit(1)]", "label $a | (empty | break $b)", "1 as $x | (empty | $y)", "reduce 1 as $x (0; $y)", "{a: nosuchfilter}", "{(nosuchfilter): 1}",
           "\"\\(nosuchfilter)\"", "try nosuchfilter", "[.[] | nosuchfilter(.)]", "if . then 1 elif 2 end", "if . then 1 elif . else 2 end", "try 1 catch", "def f(a b): 1; 1", "def f(;): 1; 1", "def f(a;): 1; 1"]


def custom(ctx):
    rng, tier = ctx["rng"], ctx["tier"]
    stats = dict(ops_ok=0, ops_diff=0, trivia_ok=0, trivia_diff=0, reject_ok=0, reject_diff=0, model_tree_ok=0)
    violations, samples = [], []
    distinct = set()
    # (i) operator chains
    chains = [list(p) for p in itertools.product(OPS, repeat=2)]
    triples = [list(p) for p in itertools.product(OPS, repeat=3)]
    if tier == "quick":
        rng.shuffle(triples)
        triples = triples[:2500]
    chains += triples
    for _ in range(600 if tier == "quick" else 10000):
        chains.append([rng.choice(OPS) for _ in range(rng.randint(4, 8))])
    cases = []
    for i, ops in enumerate(chains):
        cases.append(["a%d" % i, "parse", render(ops).encode()])
        cases.append(["b%d" % i, "parse", reference(ops).encode()])
    impl = core.run_cases(core.JAQH, cases)
    model = jq.run_model_cases([["m%d" % i, "climb", [o.encode() for o in ops]] for i, ops in enumerate(chains)])
    for i, ops in enumerate(chains):
        a, b, m = impl.get("a%d" % i), impl.get("b%d" % i), model.get("m%d" % i)
        what = None
        if not (isinstance(a, list) and a[0] == "ok" and isinstance(b, list) and b[0] == "ok"):
            what = "operator chain does not parse: %r / %r" % (render(ops), reference(ops))
        elif a[1] != b[1]:
            what = "`%s` does not parse like `%s` (the grouping the manual's table implies)" % (render(ops), reference(ops))
        else:
            try:
                if tree_of_model(m, ops) != tree_of_impl(a[1]):
                    what = "`%s`: the parser groups differently from the Coq model of precedence climbing" % render(ops)
                else:
                    stats["model_tree_ok"] += 1
            except Exception as e:
                what = "`%s`: unreadable trees (%s)" % (render(ops), e)
        if what:
            stats["ops_diff"] += 1
            violations.append(dict(key="precedence:" + "/".join(ops[:3]), what=what, case=dict(filter=render(ops), kind="ops"), impl=None))
        else:
            stats["ops_ok"] += 1
            distinct.add(sx.dumps(a[1]))
    samples.append(dict(text=render(chains[-1]), parenthesised=reference(chains[-1])))
    # (ii) trivia and redundant parentheses
    g = Gen(rng, max_depth=4)
    progs = [g.term(Scope(), rng.choice([2, 3, 4])) for _ in range(500 if tier == "quick" else 8000)]
    progs += [x for pair in SUGAR for x in pair]
    lex_cases = [["t%d" % i, "tokens", p.encode()] for i, p in enumerate(progs)]
    toks = core.run_cases(core.JAQH, lex_cases)
    cases = []
    variants = {}
    for i, p in enumerate(progs):
        t = toks.get("t%d" % i)
        if not (isinstance(t, list) and t and t[0] == "ok"):
            continue
        pieces = [x.decode("utf-8", "replace") for x in t[1]]
        v1 = trivia(rng).join([""] + pieces + [""])
        v2 = "(" + p + ")"
        v3 = "((" + trivia(rng) + p + "\n)# end\n)"
        variants[i] = (v1, v2, v3)
        cases.append(["o%d" % i, "parse", p.encode()])
        for k, v in enumerate((v1, v2, v3)):
            cases.append(["v%d_%d" % (i, k), "parse", v.encode()])
    impl = core.run_cases(core.JAQH, cases)
    for i, vs in variants.items():
        o = impl.get("o%d" % i)
        for k, v in enumerate(vs):
            r = impl.get("v%d_%d" % (i, k))
            if o != r:
                stats["trivia_diff"] += 1
                violations.append(dict(key="trivia:%d" % k, what="program changes its parse when %s: %r vs %r" % (("whitespace/comments are inserted between tokens", "wrapped in parentheses", "wrapped in parentheses and comments")[k], progs[i][:120], v[:160]),
                                       case=dict(filter=v, kind="trivia"), impl=None))
            else:
                stats["trivia_ok"] += 1
    # (iii') the lexer model (Parse/Lex.v) against jaq's lexer: programs, their trivia variants, mutated and hand-made texts
    LEX_EXTRA = [".", "..", ".a", ". a", ".a.b", "..a", "...", ".[", "$x", "$", "$ x", "@base64", "@", "@ x", "a::b", "a::$b", "a::@b", "a::", "a:: b", "::a", "1", "1.5", "1.", "1.e3", "1e", "1e+5", "1e-", "1E5", ".5",
                 "0x10", "1_0", "\"a\"", "\"a\\nb\"", "\"\\u00e9\"", "\"\\ud800\"", "\"\\uZZZZ\"", "\"\\u12\"", "\"\\q\"", "\"a", "\"\\(1 + \"b\\(2)\")c\"", "\"\\(\"", "\"\\(1\"", "(", "(1", "(1]", "[{()}]", "{a:1}",
                 "# c", "# c\n1", "1 # c \\\n 2\n3", "1 # c \\\\\n 2", "# c \\\r\n 2\n3", "1#\r\n2", "\t1\x0b\x0c2", "1\u00a02", "1\u20282", "1\u30002", "1\u200b2", "é", "1é", "a-b", "a - b", "--", "|=", "//=", "<=>", "=-1",
                 "!==", "a?//b", "?//", ".a?", ";;", ",:", "a/**/b", "&", "§", "\U0001F4A3", "\x00", "1\x002", "'a'", "`", "~", "^", "\\"]
    mut = []
    alphabet = list(".$@\"\\()[]{}#:;,?|=!<>+-*/% \n\t\r_aZ09e") + ["::", "\\(", "\\u", "é", "\u00a0"]
    for p_ in rng.sample(progs, min(len(progs), 200 if tier == "quick" else 3000)):
        b = list(p_)
        for _ in range(rng.choice([1, 1, 2, 3])):
            i = rng.randrange(len(b) + 1)
            k = rng.random()
            if k < 0.5:
                b[i:i] = list(rng.choice(alphabet))
            elif k < 0.8 and b:
                del b[min(i, len(b) - 1)]
            elif b:
                b[min(i, len(b) - 1)] = rng.choice(alphabet)
        mut.append("".join(b))
    texts = list(progs) + [vs[0] for vs in variants.values()] + LEX_EXTRA + mut
    lres = core.run_cases(core.JAQH, [["x%d" % i, "tokens", t.encode()] for i, t in enumerate(texts)])
    mres = jq.run_model_cases([["x%d" % i, "lex", t.encode()] for i, t in enumerate(texts)])
    disagreements = []
    for i, t in enumerate(texts):
        a, m = lres.get("x%d" % i), mres.get("x%d" % i)
        if a == m and isinstance(a, list):
            stats["lex_agree"] = stats.get("lex_agree", 0) + 1
            stats["lex_" + a[0]] = stats.get("lex_" + a[0], 0) + 1
        else:
            stats["lex_differ"] = stats.get("lex_differ", 0) + 1
            disagreements.append(dict(case=dict(filter=t, kind="lexer"), impl=a, model=m))
    # (iv) rejects
    rc = core.run_cases(core.JAQH, [["r%d" % i, "run", p.encode(), [], ["null"], "4"] for i, p in enumerate(REJECT)])
    for i, p in enumerate(REJECT):
        r = rc.get("r%d" % i)
        if isinstance(r, list) and r and r[0] == "out" and r[2] == "compile-error":
            stats["reject_ok"] += 1
        else:
            stats["reject_diff"] += 1
            violations.append(dict(key="accepts:" + p[:20], what="malformed program %r is not rejected at compile time: %s" % (p, sx.dumps(r)[:150]), case=dict(filter=p, kind="reject"), impl=r))
    return dict(stats=stats, evaluations=len(chains) * 2 + len(variants) * 4 + len(REJECT), distinct=distinct, violations=violations, disagreements=disagreements, samples=samples,
                coverage=dict(operator_pairs=len(OPS) ** 2, operator_triples=len(triples), exhaustive=(tier != "quick")))


def gen(ctx):
    """(iii) shorthands against their expansions, implementation and model"""
    rng = ctx["rng"]
    inputs = [from_json(json.loads(s)) for s in INPUTS_SRC]
    cases = []
    for sugar, exp in SUGAR:
        for inp in rng.sample(inputs, 4):
            cases.append(dict(filter="def st(f): [(try (f | [.]) catch {e: true})]; [st(%s), st(%s)]" % (sugar, exp), inputs=[inp], kind="sugar", eq=(sugar, exp)))
    return cases


def oracle(c, impl, model=None):
    if isinstance(impl, list) and impl and impl[0] in ("panic", "crash"):
        return ("panic", "panicked: " + sx.dumps(impl)[:200])
    if not (isinstance(impl, list) and impl and impl[0] == "out" and impl[2] == "end" and len(impl[1]) == 1):
        return ("sugar-error", "shorthand or expansion does not compile/run: %s / %s: %s" % (c["eq"][0], c["eq"][1], sx.dumps(impl)[:150]))
    out = impl[1][0]
    if out[1] != out[2]:
        return ("sugar:" + c["eq"][0][:24], "`%s` does not mean `%s`: %s vs %s" % (c["eq"][0], c["eq"][1], sx.dumps(out[1])[:150], sx.dumps(out[2])[:150]))
    return None
