"""C06: filters and data cannot make jaq touch files, network or other processes."""
import concurrent.futures
import glob
import json
import os
import re
import shutil
import subprocess
import tempfile
import core
import jq
import cli
import sx
from programs import Gen, Scope
from checks import c05

RULE = ("the jaq binary under strace (-f; open/creat/unlink/rename/link/symlink/mkdir/rmdir/chmod/chown/truncate/mknod, socket/connect/"
        "bind/sendto, execve/fork/vfork/clone): (a) every native filter and every definition of the three defs.jq discovered from the "
        "current tree, plus the format filters, called on all tuples over a pool of path-like, URL-like and command-like strings (and "
        "arrays/objects of them) as input and as arguments; (b) generated programs of the C01 generator; (c) adversarial documents per "
        "decoder (YAML tags/aliases/merge keys, XML DOCTYPE/entities/processing instructions/xinclude, CBOR tags, TOML) and mutated "
        "documents through --from and the from* filters; (d) runs with named input files, modules and data files whose contents name "
        "other paths. Policy: no write-opening, creating, renaming, linking, deleting; no socket; no process; files opened for reading are "
        "those of the start-up baseline (jaq -n .), the files named on the command line or by import directives, and the time-zone "
        "database; canary files and the working directory unchanged; non-trivial = distinct traced run")
ASSUMPTIONS = ["strace sees every system call of the process and of any child (-f)", "the start-up baseline (dynamic loader, libc, /proc/self) is what `jaq -n .` opens",
               "time-zone database = /usr/share/zoneinfo, /etc/localtime, /etc/timezone, /usr/lib/locale, /usr/share/locale (read-only)"]
PARTIAL = ["a Gallina model has no system calls: the theorem is that the set of files the loader reads is determined by the import directives "
           "alone (every loaded file is reachable from the main program through directives), and the modelled filters are functions of "
           "their input and arguments; that the natives do nothing else is observed at the system-call boundary, not proved"]

TRACE = ("open,openat,openat2,creat,unlink,unlinkat,rename,renameat,renameat2,link,linkat,symlink,symlinkat,mkdir,mkdirat,rmdir,chmod,fchmodat,"
         "chown,fchownat,lchown,truncate,mknod,mknodat,socket,connect,bind,sendto,execve,execveat,fork,vfork,clone,clone3,utimensat")
TZ_OK = ("/usr/share/zoneinfo", "/etc/localtime", "/etc/timezone", "/usr/lib/locale", "/usr/share/locale", "/usr/share/i18n")
WRITE_FLAGS = ("O_WRONLY", "O_RDWR", "O_CREAT", "O_TRUNC", "O_APPEND", "O_TMPFILE")

LINE = re.compile(r"^(?:\[pid\s+\d+\]\s+|\d+\s+)?(\w+)\((.*)$")


def parse_trace(text):
    """-> list of (syscall, first path or None, raw args)"""
    out = []
    for ln in text.split("\n"):
        m = LINE.match(ln.strip())
        if not m:
            continue
        call, rest = m.group(1), m.group(2)
        pm = re.search(r'"((?:[^"\\]|\\.)*)"', rest)
        out.append((call, pm.group(1) if pm else None, rest))
    return out


def run_traced(argv, stdin=b"", cwd=None, env=None, timeout=40):
    fd, tf = tempfile.mkstemp(prefix="c06-", suffix=".trace", dir=os.path.join(core.ROOT, "build"))
    os.close(fd)
    e = dict(os.environ)
    e["NO_COLOR"] = "1"
    if env:
        e.update(env)
    # own session: on a time-out the traced program is killed together with strace
    p = subprocess.Popen(["strace", "-f", "-qq", "-s", "300", "-o", tf, "-e", "trace=" + TRACE] + argv, stdin=subprocess.PIPE, stdout=subprocess.PIPE, stderr=subprocess.PIPE,
                         cwd=cwd, env=e, start_new_session=True)
    try:
        p.communicate(stdin, timeout=timeout)
        rc = p.returncode
    except subprocess.TimeoutExpired:
        import signal
        try:
            os.killpg(p.pid, signal.SIGKILL)
        except ProcessLookupError:
            pass
        p.communicate()
        rc = -999
    text = open(tf, errors="replace").read()
    os.remove(tf)
    return rc, parse_trace(text)


def judge(calls, allowed_read, baseline):
    """-> list of offending (call, path, why)"""
    bad = []
    first_exec = True
    for call, path, rest in calls:
        if call in ("execve", "execveat"):
            if first_exec:
                first_exec = False
                continue
            bad.append((call, path, "starts a program"))
        elif call in ("fork", "vfork"):
            bad.append((call, path, "starts a process"))
        elif call in ("clone", "clone3"):
            if "CLONE_THREAD" not in rest:
                bad.append((call, path, "starts a process"))
        elif call in ("socket", "connect", "bind", "sendto"):
            bad.append((call, path, "network"))
        elif call in ("open", "openat", "openat2", "creat"):
            if call == "creat" or any(f in rest for f in WRITE_FLAGS):
                if path in ("/dev/null", "/dev/tty"):
                    continue
                bad.append((call, path, "opens for writing"))
            else:
                np = os.path.normpath(path) if path else path
                if path is None or path in baseline or np in allowed_read or path in allowed_read or np.startswith(TZ_OK) or np.startswith("/proc/self"):
                    continue
                failed = "= -1 E" in rest
                bad.append((call, path, "looks for a file that was not named" if failed else "reads a file that was not named"))
        else:
            bad.append((call, path, "changes the file system"))
    return bad


POOL = ["/etc/passwd", "/etc/hostname", "@CANARY", "@SECRET", "2020-01-01 ../../../../etc/hostname", "%Y-%m-%d %Q", "%:Q", "../../../..@SECRET", "@CWD/new-file", "../../../etc/shadow", "~/.ssh/id_rsa", "file:///etc/passwd", "http://127.0.0.1:1/x", "https://example.invalid/", "tcp://127.0.0.1:9",
        "$(touch @CANARY)", "`touch @CANARY`", "| touch @CANARY", "; touch @CANARY", "touch @CANARY", "/bin/sh", "sh -c 'echo x > @CANARY'", "@CANARY\u0000x", "//server/share/x", "C:\\Windows\\x",
        "/dev/tcp/127.0.0.1/9", "/proc/self/environ", "/dev/zero", "%s%n", "{\"search\": \"/etc\"}", "import \"/etc/passwd\" as $x; .", "include \"@CANARY\";", "import \"d\" as $s {search: \"@LIB/sub\"}; $s", "include \"secret\" {search: \"@LIB\"}; secret",
        "import \"m\" as m {search: \"@LIB\"}; m::f", "Europe/Vienna", "/usr/share/zoneinfo/../../../etc/passwd", ""]

DOCS = [
    ("yaml", b"!!python/object/apply:os.system [\"touch @CANARY\"]\n"), ("yaml", b"!!python/object/new:subprocess.Popen [[\"touch\", \"@CANARY\"]]\n"), ("yaml", b"a: !include /etc/passwd\nb: !!binary L2V0Yy9wYXNzd2Q=\nc: !<tag:yaml.org,2002:str> x\n"),
    ("yaml", b"base: &b {path: /etc/passwd}\nx:\n  <<: *b\ny: *b\n"), ("yaml", b"a: &a [*a]\n"), ("yaml", b"%TAG ! tag:example.com,2000:app/\n--- !foo \"bar\"\n"), ("yaml", b"a: &x [1,2]\nb: [*x,*x,*x,*x]\nc: &y [*x,*x]\nd: [*y,*y,*y]\n"),
    ("yaml", b"!!java/object:java.lang.Runtime {}\n"), ("yaml", b"--- !ruby/object:Gem::Installer\ni: x\n"), ("yaml", b"? !!set {a, b}\n: !!omap [a: 1]\n"),
    ("xml", b"<?xml version=\"1.0\"?><!DOCTYPE a [<!ENTITY x SYSTEM \"file:///etc/passwd\">]><a>&x;</a>"), ("xml", b"<!DOCTYPE a [<!ENTITY % p SYSTEM \"http://127.0.0.1:1/evil.dtd\"> %p;]><a/>"),
    ("xml", b"<!DOCTYPE a SYSTEM \"file://@CANARY\"><a/>"), ("xml", b"<!DOCTYPE a SYSTEM \"/etc/hostname\"><a/>"), ("xml", b"<!DOCTYPE a SYSTEM \"file:///etc/hostname\"><a>x</a>"),
    ("xml", b"<!DOCTYPE a SYSTEM \"@SECRET\"><a/>"), ("xml", b"<?xml version=\"1.0\"?>\n<!DOCTYPE html SYSTEM \"@SECRET\">\n<html/>"), ("yaml", b"a: !!binary @SECRET\nb: !include @SECRET\n"), ("xml", b"<!DOCTYPE a PUBLIC \"-//X//Y\" \"http://127.0.0.1:1/x.dtd\"><a/>"), ("xml", b"<a xmlns:xi=\"http://www.w3.org/2001/XInclude\"><xi:include href=\"file:///etc/passwd\" parse=\"text\"/></a>"),
    ("xml", b"<?xml-stylesheet type=\"text/xsl\" href=\"file://@CANARY\"?><a/>"), ("xml", b"<!DOCTYPE l [<!ENTITY a \"aaaa\"><!ENTITY b \"&a;&a;&a;\"><!ENTITY c \"&b;&b;&b;\">]><l>&c;</l>"), ("xml", b"<a><?php system('touch @CANARY'); ?></a>"),
    ("xml", b"<a href=\"file:///etc/passwd\" src=\"http://127.0.0.1:1/\">@CANARY</a>"),
    ("cbor", bytes.fromhex("d820") + b"\x76" + b"http://127.0.0.1:1/x..."[:22]), ("cbor", bytes.fromhex("d818") + b"\x4c" + b"/etc/passwd\x00"), ("cbor", bytes.fromhex("d9d9f7a1") + b"\x64path\x6b/etc/passwd"),
    ("cbor", bytes.fromhex("d81c8301d81d00d81d00")), ("cbor", bytes.fromhex("c074323031332d30332d32315432303a30343a30305a")), ("cbor", bytes.fromhex("d9ffff6b") + b"/etc/passwd"),
    ("toml", b"include = \"/etc/passwd\"\n[import]\npath = \"@CANARY\"\n\"$(touch @CANARY)\" = 1\n"), ("toml", b"a = 1979-05-27T07:32:00Z\nb = \"file:///etc/passwd\"\n"),
    ("json", b"{\"$ref\": \"file:///etc/passwd\", \"__proto__\": {\"x\": 1}, \"path\": \"@CANARY\", \"import\": \"/etc/hostname\"}"), ("csv", b"=cmd|' /C calc'!A0,@SUM(1+1)*cmd|' /C calc'!A0,\"/etc/passwd\"\n"),
    ("tsv", b"/etc/passwd\t@CANARY\t$(touch @CANARY)\n"), ("raw", b"/etc/passwd\n@CANARY\n"),
]


def custom(ctx):
    rng, tier, seed = ctx["rng"], ctx["tier"], ctx["seed"]
    J = cli.jaq_bin()
    work = tempfile.mkdtemp(prefix="c06-", dir=os.path.join(core.ROOT, "build"))
    cwd = os.path.join(work, "cwd")
    os.makedirs(cwd)
    canary = os.path.join(work, "canary")
    home = os.path.join(work, "home")
    os.makedirs(home)
    env = {"HOME": home}

    secret = os.path.join(work, "secret.txt")
    open(secret, "w").write("top secret\n")
    lib = os.path.join(work, "lib")
    os.makedirs(os.path.join(lib, "sub"))
    tmpd = os.path.join(work, "tmp")
    os.makedirs(tmpd)
    env["TMPDIR"] = tmpd
    # environment variables that name files, directories, commands and addresses: executing a filter (`env`, `$ENV`, anything
    # else) must not follow them
    env.update({"JAQ_TOKEN_FILE": secret, "SECRET_FILE": secret, "PASSWORD_FILE": secret, "CONFIG_PATH": secret, "JAQ_CONFIG": secret, "JAQ_LIB_DIR": lib,
                "JAQ_INIT": secret, "JAQRC": secret, "ENV_FILE": secret, "PAGER": "touch " + canary, "EDITOR": "touch " + canary, "BROWSER": "touch " + canary,
                "SHELL_CMD": "touch " + canary, "http_proxy": "http://127.0.0.1:1/", "JAQ_URL": "http://127.0.0.1:1/x"})

    def subst(x):
        if isinstance(x, bytes):
            return x.replace(b"@CANARY", canary.encode()).replace(b"@CWD", cwd.encode()).replace(b"@SECRET", secret.encode()).replace(b"@LIB", lib.encode())
        return x.replace("@CANARY", canary).replace("@CWD", cwd).replace("@SECRET", secret).replace("@LIB", lib)

    stats = {}
    viol = []
    distinct = set()
    rc0, base_calls = run_traced([J, "-n", "."], cwd=cwd, env=env)
    baseline = set(p for c, p, r in base_calls if p)
    base_bad = judge(base_calls, set(), baseline)
    if rc0 != 0 or base_bad:
        viol.append(dict(key="baseline", what="`jaq -n .` itself: status %s, %s" % (rc0, base_bad[:3]), case=dict(filter=".", kind="baseline"), impl=None))
    jobs = []   # (label, argv, stdin, allowed_read, replay filter text)

    # (a) natives, definitions, format filters on path-like tuples
    pool = [subst(p) for p in POOL]
    if tier == "quick":
        keep = pool[:8] + [x for x in pool[8:] if "search" in x and "import" in x or "include \"secret" in x] + random_sample(rng, pool[8:], 6)
    else:
        keep = pool
    vals = keep + [[keep[0], keep[2]], {"path": keep[2], keep[0]: keep[3]}]
    lit = json.dumps(vals)
    fpool = [".", "$a0", "empty"]
    for text, nv, nf, label in c05.callables():
        if label.startswith("operator") and not any(w in text for w in ("from", "to", "@")):
            continue
        for fc in (fpool if nf else [None]):
            t = text
            for i in range(nf):
                t = t.replace("@F%d" % i, fc if (fc != "$a0" or nv > 0) else ".")
            binds = "".join("$p[] as $a%d | " % i for i in range(nv))
            small = nv >= 2
            prog = "%s as $p | %s | $p[] as $i | %s(try ([limit(3; $i | %s)] | empty) catch empty)" % (lit, "($p | .[:6])" if False else ".", binds, t)
            if small:
                prog = "%s as $q | ($q[:7] + $q[-2:]) as $p | $p[] as $i | %s(try ([limit(3; $i | %s)] | empty) catch empty)" % (lit, binds, t)
            jobs.append((label, [J, "-n", prog], b"", set(), prog))
    # errors and halts that leave the program uncaught, carrying values that name files, lines, commands and addresses: reporting them
    # must not look anything up (the values come from the filter or the data)
    evals = keep[:8] + [{"file": secret, "line": 1}, {"file": secret, "line": 1, "column": 1}, {"path": secret}, {"filename": secret, "lineno": 1}, {"source": secret},
                        {"cmd": "touch " + canary}, {"url": "http://127.0.0.1:1/x"}, {"include": secret}, {"import": secret}, [secret, 1], {"file": canary, "line": 1}]
    for ev in evals:
        for tmpl in ("%s | error", "error(%s)", "%s | halt_error", "%s | halt_error(1)", "%s | error(.)", "try error(%s) catch error", ". as $x | %s | error", "%s as $e | [1] | .[0] | error($e)",
                     "def f: error(%s); f", "%s | tojson | error", "label $l | error(%s)", "%s | (.file? // .) | error", "first(error(%s), 1)", "%s | env | error", "%s | $ENV | .PAGER | error"):
            prog = tmpl % json.dumps(ev)
            jobs.append(("uncaught-error", [J, "-n", prog], b"", set(), prog))
    for prog in ("env | keys | length", "$ENV | keys | length", "env.SECRET_FILE", "$ENV.JAQ_TOKEN_FILE", "env | .[]", "[env[] | tostring] | length", "env.PAGER", "$ENV.EDITOR | tostring",
                 "env | to_entries | map(.value) | length", "env | with_entries(select(.key | endswith(\"_FILE\")))", "$ENV | .CONFIG_PATH"):
        jobs.append(("environment", [J, "-n", prog], b"", set(), prog))
    # the filters the command-line program registers itself: every one (but the interactive `repl`) on every string of the pool
    known = set(lbl.split(" ")[1] for _, _, _, lbl in c05.callables())
    for path_ in glob.glob("/repo/jaq/src/*.rs"):
        for name, ar in re.findall(r'\(\s*"([a-z_0-9]+)"\s*,\s*v\((\d+)\)', open(path_, errors="replace").read()):
            if name == "repl" or "%s/%s" % (name, ar) in known:
                continue
            stats["cli_natives"] = stats.get("cli_natives", 0) + 1
            args = "; ".join("$a%d" % i for i in range(int(ar)))
            call = name + ("(" + args + ")" if args else "")
            binds = "".join("$p[] as $a%d | " % i for i in range(int(ar)))
            prog = "%s as $p | $p[] as $i | %s(try ([limit(3; $i | %s)] | empty) catch empty)" % (lit, binds, call)
            jobs.append(("native %s/%s" % (name, ar), [J, "-n", prog], b"", set(), prog))
    # (b) generated programs
    g = Gen(rng, max_depth=4)
    for _ in range(60 if tier == "quick" else 1500):
        p = g.term(Scope(), rng.choice([2, 3, 4]))
        jobs.append(("generated", [J, "-c", "limit(20; " + p + ")"], json.dumps([keep[0], {"a": keep[2]}, 1, None]).encode(), set(), p))
    # (c) documents
    docs = [(f, subst(d)) for f, d in DOCS]
    # large documents that do not decode (error paths of the decoders)
    docs += [("yaml", b"a: [" + b"x, " * 700), ("yaml", b"{" + b"k: v, " * 400 + b"]"), ("xml", b"<a>" + b"<b>text</b>" * 200 + b"</c>"), ("xml", b"<a " + b"x" * 2000),
             ("toml", b"a = [" + b"1, " * 600), ("toml", b"[t]\n" + b"k = 1\n" * 300 + b"k = = 2\n"), ("cbor", b"\x9f" + b"\x01" * 2000), ("cbor", b"\xbf" + b"\x61a\x01" * 600 + b"\xfe"),
             ("json", b"[" + b"1, " * 600 + b"}"), ("csv", b"\"" + b"a" * 3000), ("tsv", b"a\\q" * 600)]
    more = c05.documents(rng, "quick")
    docs += rng.sample(more, 60 if tier == "quick" else 1200)
    for fmt, d in docs:
        jobs.append(("document:" + fmt, [J, "--from", fmt, "-c", "."], d, set(), "--from " + fmt))
        if fmt not in ("raw", "raw0", "json"):
            jobs.append(("document-filter:" + fmt, [J, "-n", "-c", "input | from" + fmt, "--from", "raw", "-s"] if False else [J, "-R", "-s", "-c", "try from%s catch \"rejected\"" % fmt], d, set(), "from" + fmt))
    # (d) named files whose contents name other paths
    open(os.path.join(lib, "m.jq"), "w").write("import \"d\" as $d {search: \"sub\"}; def f: [$d[0].path, \"%s\"];" % canary)
    open(os.path.join(lib, "sub", "d.json"), "w").write(json.dumps({"path": canary, "import": "/etc/hostname", "include": "secret"}))
    open(os.path.join(lib, "secret.jq"), "w").write("def secret: 1;")
    inp = os.path.join(work, "in.json")
    open(inp, "w").write(json.dumps({"file": "/etc/hostname", "module": "secret", "cmd": "touch " + canary, "paths": [canary, os.path.join(cwd, "x")]}))
    raw = os.path.join(work, "in.txt")
    open(raw, "w").write("/etc/hostname\n" + canary + "\n")
    named = [
        ([J, "-L", lib, "-c", "import \"m\" as m; [m::f, .file, (.paths[] | tostring), (.module | ascii_downcase), input_filename]", inp], {inp, os.path.join(lib, "m.jq"), os.path.join(lib, "sub", "d.json")}),
        ([J, "-c", "[., input_filename] | tojson | fromjson", inp, inp], {inp}),
        ([J, "-R", "-c", "[., (. | tostring | ascii_downcase)]", raw], {raw}),
        ([J, "-n", "-c", "--rawfile", "r", raw, "--slurpfile", "s", inp, "[$r, $s[0].file, ($s[0].paths[])]"], {raw, inp}),
        ([J, "-n", "-c", "[inputs | .cmd, .file]", inp], {inp}),
        ([J, "-c", "--from", "yaml", ".", os.path.join(work, "in.yaml")], {os.path.join(work, "in.yaml")}),
    ]
    open(os.path.join(work, "in.yaml"), "w").write("a: !include %s\nb: &x /etc/hostname\nc: *x\n" % canary)
    for argv, allowed in named:
        jobs.append(("named-files", argv, b"", allowed, " ".join(argv[1:])))
    # time-zone filters: only the time-zone database
    for p in ["now | localtime | mktime", "0 | localtime | strftime(\"%c %Z\")", "now | strflocaltime(\"%Y %Z\")", "\"2015-03-05T23:51:47Z\" | strptime(\"%Y-%m-%dT%H:%M:%SZ\") | mktime", "now | todate | fromdate", "0 | gmtime | todate", "now | date",
              "\"2020-01-01 ../../../../etc/hostname\" | strptime(\"%Y-%m-%d %Q\")", "\"2020-01-01 ../../../..@SECRET\" | strptime(\"%Y-%m-%d %Q\")", "\"2020-01-01 Europe/Vienna\" | strptime(\"%Y-%m-%d %Q\")",
              "\"2020-01-01 [../../../../etc/hostname]\" | strptime(\"%Y-%m-%d [%Q]\")", "\"12 @SECRET\" | strptime(\"%H %:Q\")", "0 | strftime(\"%Q\")", "0 | localtime | strftime(\"%Q %Z\")"]:
        jobs.append(("time-zone", [J, "-n", "-c", "try (%s) catch null" % subst(p)], b"", set(), p))

    def one(job):
        label, argv, stdin, allowed, text = job
        rc, calls = run_traced(argv, stdin, cwd=cwd, env=env)
        return rc, calls
    with concurrent.futures.ThreadPoolExecutor(max_workers=core.NCPU) as ex:
        results = list(ex.map(one, jobs))
    nsys = 0
    for (label, argv, stdin, allowed, text), (rc, calls) in zip(jobs, results):
        distinct.add(text)
        nsys += len(calls)
        kind = label.split(" ")[0].split(":")[0]
        stats["runs:" + kind] = stats.get("runs:" + kind, 0) + 1
        if rc == -999:
            stats["timeouts"] = stats.get("timeouts", 0) + 1
        if rc == 101 or (rc is not None and rc < 0 and rc != -999):
            stats["crashed"] = stats.get("crashed", 0) + 1
        for call, path, why in judge(calls, allowed, baseline):
            viol.append(dict(key="syscall:%s:%s" % (kind, call), what="%s: %s %s %r in: jaq %s" % (label, why, call, path, " ".join(argv[1:])[:500]),
                             case=dict(filter=text, kind="traced", argv=argv[1:], stdin=stdin.decode("latin-1")[:2000]), impl=None))
            break
    # the documented exception --in-place: nothing but the named file changes, whatever lies next to it
    for flt, okexp in [(".a", True), (".[] | if . == 3 then error else . end", False), ("., halt_error", False), ("1, 2, halt(3)", False), (".", True)]:
        ipd = os.path.join(work, "ip")
        shutil.rmtree(ipd, ignore_errors=True)
        os.makedirs(ipd)
        others = {"data.tmp": b"unrelated temporary\n", "data": b"no extension\n", "data.json.tmp": b"x", ".data.json": b"hidden", "data.json~": b"backup", "other.json": b"{\"a\": 2}"}
        for n_, c_ in others.items():
            open(os.path.join(ipd, n_), "wb").write(c_)
        open(os.path.join(ipd, "data.json"), "w").write("{\"a\": [1, 2, 3, 4]}")
        subprocess.run([J, "-i", "-c", flt, "data.json"], cwd=ipd, env=dict(os.environ, HOME=home), stdout=subprocess.PIPE, stderr=subprocess.PIPE, timeout=60)
        now = {n_: open(os.path.join(ipd, n_), "rb").read() for n_ in os.listdir(ipd)}
        changed = [n_ for n_ in set(now) | set(others) if n_ != "data.json" and now.get(n_) != others.get(n_)]
        if changed or "data.json" not in now:
            viol.append(dict(key="in-place-other-files", what="jaq -i %r data.json changed, created or removed other files: %s" % (flt, sorted(changed)), case=dict(filter=flt, kind="in-place"), impl=None))
        else:
            stats["in_place_frame_ok"] = stats.get("in_place_frame_ok", 0) + 1
    # canaries and the working directory
    if os.path.exists(canary):
        viol.append(dict(key="canary", what="the canary file %s was created by one of the traced runs" % canary, case=dict(filter="(all runs)", kind="canary"), impl=None))
    left = os.listdir(cwd)
    if left:
        viol.append(dict(key="cwd", what="files appeared in the working directory: %s" % left[:5], case=dict(filter="(all runs)", kind="canary"), impl=None))
    if os.listdir(tmpd):
        viol.append(dict(key="tmpdir", what="files appeared in the directory for temporary files: %s" % os.listdir(tmpd)[:5], case=dict(filter="(all runs)", kind="canary"), impl=None))
    if os.listdir(home):
        viol.append(dict(key="home", what="files appeared in the home directory: %s" % os.listdir(home)[:5], case=dict(filter="(all runs)", kind="canary"), impl=None))
    shutil.rmtree(work, ignore_errors=True)
    # classification of the registry: modelled as pure functions in Coq, or observed only
    env_lines = [sx.loads(l) for l in open(jq.ENVFILE)]
    natives = sorted(set(x[0].decode() for x in env_lines[0][1]))
    return dict(stats=stats, evaluations=len(jobs), distinct=distinct, violations=viol, samples=[dict(argv=jobs[0][1][1:3])],
                coverage=dict(traced_runs=len(jobs), system_calls_seen=nsys, natives_in_registry=len(natives), baseline_files=sorted(baseline)[:12]))


def random_sample(rng, xs, k):
    return rng.sample(xs, min(k, len(xs)))
