"""C18: --in-place replaces a file atomically and only after complete success."""
import os
import re
import shutil
import stat
import subprocess
import tempfile
import core
import cli

RULE = ("scenarios: 1-3 files (larger/smaller/empty output, read-only and private modes, relative and absolute paths) x filters that "
        "succeed, fail after k outputs, or meet a parse error at value k; per scenario (i) final directory state against the model "
        "(Cli/InPlace.v): new content = stdout of the same invocation without -i, mode preserved, earlier files new / later files old, no "
        "temporary file left; (ii) the syscall trace (strace) against the model's operation sequence; (iii) fault enumeration: SIGKILL "
        "injected at every write/rename/chmod call and EIO at every write: the file holds its old bytes or the complete new output; "
        "non-trivial = distinct (scenario, injection point)")
ASSUMPTIONS = ["rename(2) is atomic (POSIX); no crash consistency below the syscall layer (no fsync is issued: not covered)",
               "kill points are enumerated at syscall granularity"]
PARTIAL = ["file-system crash consistency below the syscall layer"]

SCEN = [
    # (files: {name: (content, mode)}, filter, extra args, expectation per file: 'new' | 'old')
    ({"a.json": (b"1 2 3", 0o644)}, ".+1", ["-c"], ["new"]),
    ({"a.json": (b"[1,2,3]", 0o600)}, ".[]", [], ["new"]),
    ({"a.json": (b"{\"k\": [1, 2, {\"z\": null}]}", 0o640)}, ".", [], ["new"]),
    ({"a.json": (b"1 2 3", 0o444)}, "empty", ["-c"], ["new"]),
    ({"a.json": (b"1 2 3 4 5", 0o644)}, "if . == 3 then error(\"boom\") else . end", ["-c"], ["old"]),
    ({"a.json": (b"1 2 oops 4", 0o644)}, ".", ["-c"], ["old"]),
    ({"a.json": (b"1 2", 0o644)}, "., halt_error", ["-c"], ["old"]),
    ({"a.json": (b"1", 0o644), "b.json": (b"2 3", 0o600), "c.json": (b"4", 0o664)}, ".*10", ["-c"], ["new", "new", "new"]),
    ({"a.json": (b"1", 0o644), "b.json": (b"2 x", 0o600), "c.json": (b"4", 0o664)}, ".*10", ["-c"], ["new", "old", "old"]),
    ({"a.json": (b"1", 0o644), "b.json": (b"2 3", 0o600), "c.json": (b"4", 0o664)}, "if . == 3 then error else . end", ["-c"], ["new", "old", "old"]),
    ({"a.json": (b"\"x\"", 0o644)}, "[range(2000)]", ["-c"], ["new"]),
    ({"a.json": (b"[" + b",".join(str(i).encode() for i in range(3000)) + b"]", 0o644)}, "length", ["-c"], ["new"]),
    ({"a.json": (b"1 2 3", 0o644)}, "input_filename", ["-r"], ["new"]),
    ({"a.json": (b"a\nb\n", 0o644)}, "ascii_upcase", ["-R", "-r"], ["new"]),
]


def setup_dir(base, files):
    d = tempfile.mkdtemp(prefix="c18-", dir=base)
    for name, (content, mode) in files.items():
        p = os.path.join(d, name)
        with open(p, "wb") as f:
            f.write(content)
        os.chmod(p, mode)
    return d


def state(d):
    out = {}
    for name in sorted(os.listdir(d)):
        p = os.path.join(d, name)
        with open(p, "rb") as f:
            out[name] = (f.read(), stat.S_IMODE(os.stat(p).st_mode))
    return out


def custom(ctx):
    rng, tier = ctx["rng"], ctx["tier"]
    jaq = cli.jaq_bin()
    base = os.path.join(core.ROOT, "build", "c18")
    shutil.rmtree(base, ignore_errors=True)
    os.makedirs(base)
    stats = dict(scenarios=0, state_ok=0, trace_ok=0, kill_points=0, kill_ok=0, eio_points=0, eio_ok=0)
    violations, samples = [], []
    distinct = set()

    def viol(key, what, sc_i, extra=None):
        files, flt, extra_args, _ = SCEN[sc_i]
        violations.append(dict(key=key, what=what, case=dict(filter=flt, kind="in-place", args=["-i"] + extra_args, files={k: v[0].decode("latin-1")[:200] for k, v in files.items()}, inject=extra), impl=None))

    for si, (files, flt, extra_args, expect) in enumerate(SCEN):
        stats["scenarios"] += 1
        names = list(files.keys())
        # what the same invocation prints per file without -i
        new = {}
        for n in names:
            d0 = setup_dir(base, {n: files[n]})
            rc, out, err = cli.run_one(extra_args + [flt, n], cwd=d0)
            new[n] = (out, rc)
            shutil.rmtree(d0)
        want = {}
        for n, e in zip(names, expect):
            want[n] = ((new[n][0] if e == "new" else files[n][0]), files[n][1])
        for variant in ("relative", "absolute"):
            if variant == "absolute" and "input_filename" in flt:
                continue
            d = setup_dir(base, files)
            argv = [jaq, "-i"] + extra_args + [flt] + [n if variant == "relative" else os.path.join(d, n) for n in names]
            trace = os.path.join(base, "trace-%d.txt" % si)
            p = subprocess.run(["strace", "-f", "-o", trace, "-e", "trace=openat,rename,renameat,renameat2,unlink,unlinkat,chmod,fchmod,fchmodat,write,linkat,link,symlinkat,mkdirat"] + argv,
                               cwd=d, stdout=subprocess.PIPE, stderr=subprocess.PIPE, env=dict(os.environ, NO_COLOR="1", RUST_BACKTRACE="0"))
            got = state(d)
            if got != want:
                diff = [n for n in set(got) | set(want) if got.get(n) != want.get(n)]
                viol("state:" + variant, "after jaq -i %s %r (status %d) the directory differs from the model on %s: %r" % (" ".join(extra_args), flt, p.returncode, diff,
                     {n: (got.get(n, (b"<missing>", 0))[0][:60], oct(got.get(n, (b"", 0))[1])) for n in diff}), si)
            else:
                stats["state_ok"] += 1
                distinct.add((si, variant))
            ok_expected = all(e == "new" for e in expect)
            if (p.returncode == 0) != ok_expected and "halt" not in flt:
                viol("status", "exit status %d, expected %s" % (p.returncode, "0" if ok_expected else "non-zero"), si)
            if variant == "relative":
                tv = check_trace(open(trace).read(), d, names, expect)
                if tv:
                    viol("trace", tv, si)
                else:
                    stats["trace_ok"] += 1
                if len(samples) < 3:
                    samples.append(dict(files={n: files[n][0].decode("latin-1")[:40] for n in names}, filter=flt, expect=expect,
                                        ops=[l.split(None, 1)[1][:90] for l in open(trace).read().splitlines() if re.search(r"jaq\w{6}|renameat|chmod", l)][:8]))
            shutil.rmtree(d)
        # fault enumeration: kill at every write / rename / chmod; EIO at every write
        nwrites = max(1, sum(len(new[n][0]) and (new[n][0].count(b"\n") * 2 + 2) for n in names))
        points = list(range(1, min(nwrites, 12 if tier == "quick" else 200) + 1))
        for call, kind in (("write", "kill"), ("renameat", "kill"), ("chmod", "kill"), ("write", "eio"), ("renameat", "eio"), ("openat", "kill-open")):
            pts = points if call == "write" else [1, 2, 3]
            if call == "openat":
                pts = list(range(1, 40 if tier == "quick" else 80, 3))
            for k in pts:
                d = setup_dir(base, files)
                inj = "%s:signal=SIGKILL:when=%d" % (call, k) if kind.startswith("kill") else "%s:error=EIO:when=%d" % (call, k)
                argv = ["strace", "-f", "-o", "/dev/null", "-e", "trace=%s" % call, "-e", "inject=" + inj, jaq, "-i"] + extra_args + [flt] + names
                p = subprocess.run(argv, cwd=d, stdout=subprocess.PIPE, stderr=subprocess.PIPE, env=dict(os.environ, NO_COLOR="1", RUST_BACKTRACE="0"))
                got = state(d)
                stats["kill_points" if kind.startswith("kill") else "eio_points"] += 1
                bad = None
                for n in names:
                    if n not in got:
                        bad = "%s vanished" % n
                        break
                    data = got[n][0]
                    if data != files[n][0] and data != new[n][0]:
                        bad = "%s holds neither its old bytes nor the complete output: %r" % (n, data[:80])
                        break
                    if data == new[n][0] and data != files[n][0] and new[n][1] != 0:
                        bad = "%s was replaced although the filter failed on it" % n
                        break
                if bad is None and kind == "eio" and p.returncode >= 0:
                    # an error return (not a kill): no temporary file may stay behind and status is non-zero unless the fault hit nothing
                    extra = [n for n in got if n not in files]
                    if extra:
                        bad = "temporary file left behind after a failed write: %s" % extra
                if bad:
                    viol("fault:%s-%s" % (kind, call), "with %s: %s" % (inj, bad), si, extra=inj)
                else:
                    stats["kill_ok" if kind.startswith("kill") else "eio_ok"] += 1
                    distinct.add((si, inj))
                shutil.rmtree(d)
    shutil.rmtree(base, ignore_errors=True)
    return dict(stats=stats, evaluations=stats["scenarios"] * 2 + stats["kill_points"] + stats["eio_points"], distinct=distinct, violations=violations,
                samples=samples, coverage=dict(fault_points=stats["kill_points"] + stats["eio_points"]))


def check_trace(text, d, names, expect):
    """the syscall sequence must be the model's: per file, create-exclusive a temporary in the same directory, write only to it,
    then (success) rename it over the input and chmod, or (failure) unlink it; nothing else is created, renamed or removed"""
    ops = []
    for ln in text.splitlines():
        m = re.match(r"\d+\s+(\w+)\((.*)\)\s+=\s+(-?\d+)", ln)
        if not m:
            continue
        call, args, ret = m.group(1), m.group(2), int(m.group(3))
        if call == "openat":
            if "O_CREAT" in args or "O_WRONLY" in args or "O_RDWR" in args:
                pm = re.search(r'"([^"]*)"', args)
                if pm and not pm.group(1).startswith(("/dev/", "/proc/")):
                    ops.append(("create", pm.group(1), "O_EXCL" in args, ret))
        elif call in ("rename", "renameat", "renameat2"):
            ps = re.findall(r'"([^"]*)"', args)
            ops.append(("rename", ps[0], ps[1], ret))
        elif call in ("unlink", "unlinkat"):
            ps = re.findall(r'"([^"]*)"', args)
            ops.append(("unlink", ps[0], ret))
        elif call in ("chmod", "fchmodat"):
            ps = re.findall(r'"([^"]*)"', args)
            ops.append(("chmod", ps[0], ret))
        elif call in ("link", "linkat", "symlinkat", "mkdirat"):
            ops.append((call,))
    i = 0
    for n, e in zip(names, expect):
        if i >= len(ops) or ops[i][0] != "create":
            return "no temporary file created for %s: %r" % (n, ops[i:i + 2])
        tmp = ops[i][1]
        if not ops[i][2]:
            return "temporary file %s not created exclusively" % tmp
        if os.path.dirname(tmp) != d or tmp == os.path.join(d, n):
            return "temporary file %s is not a fresh file in the directory of %s" % (tmp, n)
        i += 1
        if e == "new":
            if i + 1 >= len(ops) or ops[i][0] != "rename" or ops[i][1] != tmp or os.path.basename(ops[i][2]) != n:
                return "expected rename(%s -> %s), got %r" % (tmp, n, ops[i:i + 1])
            if ops[i + 1][0] != "chmod":
                return "permission bits not restored after rename: %r" % (ops[i + 1:i + 2],)
            i += 2
        else:
            if i >= len(ops) or ops[i][0] != "unlink" or ops[i][1] != tmp:
                return "expected unlink(%s) after the failure, got %r" % (tmp, ops[i:i + 1])
            i += 1
            break
    if i != len(ops):
        return "unexpected further file operations: %r" % (ops[i:i + 3],)
    return None
