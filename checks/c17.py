"""C17: the command line prints each output once, in order, and reports the true outcome."""
import json
import os
import tempfile
import core
import jq
import cli
import sx
from values import *
from values import from_json
from programs import Gen, Scope

RULE = ("the jaq binary on option subsets x filters (generator of C01 plus input/inputs/halt/error/limit) x input streams on stdin or "
        "in 1..3 files, valid or truncated or malformed: stdout bytes, presence of stderr text, exit status against the prediction of "
        "the Coq model of the main loop (Cli/Main.v + interpreter + writer + reader); in-language oracles for input/inputs/"
        "input_filename/$ENV/--arg/--args/--slurpfile/--rawfile consumption and order; non-trivial = distinct (stdout, status)")
ASSUMPTIONS = ["stdout is a pipe (no terminal detection, colours off: NO_COLOR=1)", "filters using input/inputs/$ENV/input_filename are "
               "checked by oracle only (the model interpreter has no input cursor)"]
PARTIAL = ["terminal detection, colours by environment, Windows are not covered"]

FILTERS = [".", ".[]", ".a", "1, 2", "empty", "error(\"x\")", "., error(\"late\")", "halt", "halt(3)", "1, halt(7), 2", "null", "false", "(1, false)", "(false, 1)",
           "[., 1]", "{a: .}", "\"s\"", "\"a\\u0000b\"", "[.[]?]", "keys?", "tostring", "length", "..", "select(. != null)", ".[0]?", "limit(2; .[]?)",
           "halt(256)", "halt(-1)", "error", "try error catch .", "\"line\\nbreak\"", "[1,[2]]", "{\"b\":1,\"a\":{\"d\":1,\"c\":2}}", "1.0, 1.10, 1e1000, nan",
           "\"\\u00e9\"", "@json", "first(.[]?)", "if . then 1 else empty end", "(.. | numbers)", "error(null)", "error({a:1})", ". as [$x] | $x",
           # objects with keys that are not strings: -S sorts them by the order of values
           "{(10):\"x\",(9):\"y\",(1):\"z\"}", "{([2]):1,([1]):2,\"a\":3,(null):4,\"B\":5,(true):6,(1.5):7,({}):8,(false):9}", "[{(2):{(3):1,(1):2},(1):0}]"]
STDINS = [b"", b"null", b"1 2 3", b"[1,2]\n[3]\n", b"{\"a\":1} {\"a\":[2,3]}", b"\"x\" \"y\"\n", b"1 2 oops 3", b"[1,", b"1\n\n2\n", b"  ", b"# c\n1", b"true false null",
          b"a\nb\r\nc", b"a\0b\0", b"line without newline", b"\n", b"{\"b\":2,\"a\":1}", b"[[1,[2]],{\"x\":[]}]", b"1 [2] {", b"\xff\xfe\n", b"\"\\ud83d\\ude00\"",
          b"1.10 1e1000 -0.0", b"false", b"[null,false]", b"a\0\0\0", b"\0\0", b"a\0\0b", b"\0", b"{10:1,9:2,1:3} {[2]:1,\"a\":2,null:3,[1]:4,1:5}"]
OPTSETS = [["--raw-output0", "-j"], ["-j", "--raw-output0"], ["--to", "json", "-j"], ["-j", "--to", "json"], ["-r", "--to", "json"], ["--to", "raw", "-c"],
           ["--raw-output0", "-r"], ["-r", "--raw-output0"], ["-cj"], ["-jc", "--raw-output0"], ["--from", "json", "-c"], ["--from", "raw", "-c"], ["-R", "--from", "json", "-c"],
           ["--from", "json", "-R", "-c"], ["--raw-input0", "-R", "-c"], ["-R", "--raw-input0", "-c"], ["--tab", "--indent", "3"], ["--indent", "3", "--tab"], ["--indent", "1", "--indent", "4"],
           ["--compact-output", "--sort-keys"], ["--null-input", "--exit-status"], ["--slurp", "--raw-input"], ["--join-output"], ["--raw-output", "--compact-output"],
           ["--indent", "x"], ["--indent"], ["-x"], ["--bogus"], ["--to", "nope"], ["--from"], ["-cX"],
           [], ["-c"], ["-r"], ["-j"], ["-n"], ["-s"], ["-R"], ["-Rs"], ["-e"], ["-S"], ["--tab"], ["--indent", "1"], ["-c", "-S"], ["-r", "-c"], ["-n", "-e"],
           ["-s", "-c"], ["-R", "-r"], ["--raw-output0"], ["--raw-input0"], ["-ce"], ["-sR", "-j"], ["-nr"], ["-C", "-M", "-c"], ["-M"], ["--indent", "0"],
           ["-e", "-s"], ["--raw-input0", "-s", "-c"]]


def opts_to_model(args):
    m = []
    it = iter(args)
    for a in it:
        if a.startswith("--"):
            names = [a[2:]]
        else:
            names = list(a[1:])
        for n in names:
            m += {"c": ["compact"], "compact-output": ["compact"], "r": ["raw-output"], "j": ["join", "raw-output"], "n": ["null-input"], "s": ["slurp"],
                  "R": ["raw-input"], "e": ["exit-status"], "S": ["sort-keys"], "raw-output0": ["raw-output0"], "raw-input0": ["raw-input0"],
                  "C": [], "M": [], "tab": [["indent", b"\t"]]}.get(n, [])
            if n == "indent":
                m.append(["indent", b" " * int(next(it))])
    return m


def custom(ctx):
    rng, tier = ctx["rng"], ctx["tier"]
    n = 900 if tier == "quick" else 15000
    g = Gen(rng, max_depth=3)
    jobs, meta = [], []
    for i in range(n):
        f = rng.choice(FILTERS) if rng.random() < 0.8 else g.term(Scope(), 3)
        if f.startswith("-"):
            f = "(" + f + ")"       # a leading `-` would be read as an option
        o = rng.choice(OPTSETS)
        s = rng.choice(STDINS)
        if rng.random() < 0.06:
            # -S on objects whose keys are not strings (from filters or from jaq's JSON superset on input)
            o = rng.choice([["-S"], ["-c", "-S"], ["--compact-output", "--sort-keys"], ["-S", "--tab"], ["-cS"]])
            if rng.random() < 0.5:
                f = rng.choice([x for x in FILTERS if "(1" in x])
            else:
                f, s = rng.choice([".", "[.]", "{a: .}"]), rng.choice([x for x in STDINS if b"{10:1" in x] + [b"{[1,2]:1,[1]:2,{}:3,\"\":4,true:5,false:6,1.5:7,1:8,null:9}", b"{2:{3:1,1:2},1:0}"])
        named = []
        if rng.random() < 0.2:
            named = [("v", "x y"), ("w", "2")]
            f = rng.choice(["$v", "[$v, $w]", "$ARGS.named", "[$v, .]", "$w | tonumber"]) if rng.random() < 0.7 else f
        args = list(o)
        for k, v in named:
            args += ["--arg", k, v]
        jobs.append(dict(args=args + [f], stdin=s))
        meta.append(dict(filter=f, opts=o, stdin=s, named=named))
    res = cli.run_many(jobs)
    # model predictions: the model parses the command line itself (Cli/Args.v)
    pcases = [["p%d" % i, "parse", m["filter"].encode()] for i, m in enumerate(meta)]
    trees = core.run_cases(core.JAQH, pcases)
    mcases = []
    for i, m in enumerate(meta):
        t = trees.get("p%d" % i)
        tree = t[1] if isinstance(t, list) and t and t[0] == "ok" else "none"
        vars_ = [[k, S(v)] for k, v in m["named"]]
        argv = [a.encode() for a in jobs[i]["args"]]
        mcases.append(["c%d" % i, "cli2", tree, m["filter"].encode(), argv, vars_, m["stdin"], "400"])
    model = jq.run_model_cases(mcases)
    stats = dict(cli_agree=0, cli_disagree=0, cli_unmodelled=0)
    violations, samples = [], []
    distinct = set()
    for i, (m, (rc, out, err)) in enumerate(zip(meta, res)):
        what = None
        if "$ARGS" in m["filter"] or "$ENV" in m["filter"] or "input" in m["filter"]:
            stats["cli_unmodelled"] += 1
            continue
        mo = model.get("c%d" % i)
        if not (isinstance(mo, list) and mo and mo[0] == "cli") or mo[3] == "out-of-model":
            if rc == 3 and out == b"":
                stats["cli_agree"] += 1      # undefined names: compile error, out of the model's scope resolution
            else:
                stats["cli_unmodelled"] += 1
            continue
        mout, mcode = mo[1], int(mo[2])
        if rc != mcode or out != mout:
            what = "jaq %s on %r: stdout %r status %d; the model (option parser + main loop) says %r status %d (%s)" % (
                " ".join(jobs[i]["args"]), m["stdin"][:60], out[:160], rc, mout[:160], mcode, mo[3])
        elif (mo[3] in ("run-error", "input-error", "write-error", "usage-error", "compile-error")) != bool(err):
            what = "outcome %s (status %d) but stderr is %s" % (mo[3], rc, "empty" if not err else "not empty: %r" % err[:80])
        else:
            stats["cli_agree"] += 1
            distinct.add((out, rc))
            if len(samples) < 4 and out:
                samples.append(dict(args=jobs[i]["args"], stdin=m["stdin"].decode("latin-1"), stdout=out.decode("latin-1")[:100], status=rc))
        if what:
            stats["cli_disagree"] += 1
            violations.append(dict(key="cli:" + ("status" if "status" in what else "output"), what=what,
                                   case=dict(filter=m["filter"], kind="cli", args=jobs[i]["args"], stdin=m["stdin"].decode("latin-1")), impl=None))
    # in-language oracles for the parts outside the model: input consumption, files, variables
    v2, s2, n2 = oracles(rng, tier)
    violations += v2
    stats.update(s2)
    for fn in (files_as_stdin, interleaving, dialogues):
        v3, s3, n3 = fn(rng, tier)
        violations += v3
        stats.update(s3)
        n2 += n3
    return dict(stats=stats, evaluations=len(jobs) + n2, distinct=distinct, violations=violations, samples=samples,
                coverage=dict(option_sets=len(OPTSETS), filters=len(FILTERS), stdins=len(STDINS)))


def oracles(rng, tier):
    """each input is consumed exactly once and in order by the main loop or input/inputs, per file; variables; exit codes"""
    viol = []
    stats = dict(oracle_ok=0, oracle_fail=0)
    d = tempfile.mkdtemp(prefix="c17-", dir=os.path.join(core.ROOT, "build"))
    files = {}
    for name, content in (("a.json", b"1 2 3"), ("b.json", b"[4] [5]"), ("c.json", b""), ("d.json", b"6 oops"), ("r.txt", b"l1\nl2\n"), ("arr.json", b"7 8")):
        with open(os.path.join(d, name), "wb") as f:
            f.write(content)
        files[name] = content
    T = [
        # (args, stdin, expected stdout, expected status)
        (["-c", "[., input]"], b"1 2 3 4", b"[1,2]\n[3,4]\n", 0),
        (["-c", "[., input]"], b"1 2 3", b"[1,2]\n[3]\n", 0),
        (["-c", "[inputs]"], b"1 2 3", b"[2,3]\n[]\n" if False else b"[2,3]\n", 0),
        (["-nc", "[inputs]"], b"1 2 3", b"[1,2,3]\n", 0),
        (["-nc", "input, input"], b"1 2 3", b"1\n2\n", 0),
        (["-nc", "[limit(2; inputs)], [inputs]"], b"1 2 3 4", b"[1,2]\n[3,4]\n", 0),
        (["-nc", "first(inputs), [inputs]"], b"1 2 3", b"1\n[2,3]\n", 0),
        (["-c", "., [inputs]"], b"1 2 3", b"1\n[2,3]\n", 0),
        (["-nc", "input"], b"", b"", 0),
        (["-nc", "[inputs]"], b"1 2 oops", None, 5),
        (["-c", ".", "a.json", "b.json"], b"", b"1\n2\n3\n[4]\n[5]\n", 0),
        (["-c", "[., input_filename]", "a.json", "b.json"], b"", b'[1,"a.json"]\n[2,"a.json"]\n[3,"a.json"]\n[[4],"b.json"]\n[[5],"b.json"]\n', 0),
        (["-c", "[., input]", "a.json", "b.json"], b"", None, None),
        (["-nc", "[inputs]", "a.json", "b.json"], b"", b"[1,2,3]\n[[4],[5]]\n", 0),
        (["-c", ".", "a.json", "d.json", "b.json"], b"", b"1\n2\n3\n6\n", 5),
        (["-c", ".", "a.json", "missing.json"], b"", b"1\n2\n3\n", 2),
        (["-sc", ".", "a.json", "b.json"], b"", b"[1,2,3]\n[[4],[5]]\n", 0),
        (["-c", ".", "c.json"], b"", b"", 0),
        (["-ec", ".", "c.json"], b"", b"", 4),
        (["-R", ".", "r.txt"], b"", b'"l1"\n"l2"\n', 0),
        (["-c", "--slurpfile", "s", "arr.json", "--rawfile", "r", "r.txt", "-n", "[$s, $r]"], b"", b'[[7,8],"l1\\nl2\\n"]\n', 0),
        (["-c", "--argjson", "j", "{\"a\":[1]}", "--arg", "a", "{}", "-n", "[$j, $a, $ARGS.named]"], b"", b'[{"a":[1]},"{}",{"a":"{}","j":{"a":[1]}}]\n' if False else None, 0),
        (["-nc", "$ARGS.positional", "--args", "x", "y"], b"", b'["x","y"]\n', 0),
        (["-nc", "--args", "$ARGS.positional", "x", "1"], b"", b'["x","1"]\n', 0),
        (["-nr", "$ENV.C17_PROBE"], b"", b"probe-value\n", 0),
        (["-nr", "env.C17_PROBE"], b"", b"probe-value\n", 0),
        (["-n", "--argjson", "j", "{bad", "1"], b"", b"", 5),
        (["--no-such-flag", "."], b"", b"", 2),
        (["--indent"], b"", b"", 2),
        (["-n", "undefined_filter_xyz"], b"", b"", 3),
        (["-n", "1 +"], b"", b"", 3),
        (["-f", "prog.jq", "-c"], b"[1,2]", b"3\n", 0),
        (["-n", "-f", "missing.jq"], b"", b"", 2),
        (["-n", "\"a\", halt_error"], b"", b'"a"\n', 5),
        (["-n", "{} | halt_error(1)"], b"", b"", 1),
        (["-n", "\"bye\\n\" | halt_error(0)"], b"", b"", 0),
        (["--raw-output0", "-n", "\"a\\u0000b\""], b"", b"", 2),
        (["-j", "-n", "1, \"a\", [2]"], b"", b"1a[\n  2\n]", 0),
        (["-jc", "-n", "1, \"a\", [2]"], b"", b"1a[2]", 0),
        (["-r", "-n", "\"a\", [\"b\"]"], b"", b'a\n[\n  "b"\n]\n', 0),
    ]
    with open(os.path.join(d, "prog.jq"), "w") as f:
        f.write(".[0] + .[1]")
    jobs = [dict(args=a, stdin=s, cwd=d, env={"C17_PROBE": "probe-value"}) for a, s, _, _ in T]
    res = cli.run_many(jobs)
    for (a, s, eo, ec), (rc, out, err) in zip(T, res):
        bad = (eo is not None and out != eo) or (ec is not None and rc != ec)
        if bad:
            stats["oracle_fail"] += 1
            viol.append(dict(key="cli-oracle:" + " ".join(a)[:40], what="jaq %s on %r: stdout %r status %d, documented behaviour: %r status %s" % (" ".join(a), s, out[:120], rc, eo, ec),
                             case=dict(filter=a[-1], kind="cli-oracle", args=a, stdin=s.decode("latin-1")), impl=None))
        else:
            stats["oracle_ok"] += 1
    import shutil
    shutil.rmtree(d, ignore_errors=True)
    return viol, stats, len(T)


def files_as_stdin(rng, tier):
    """the inputs of several files are the inputs of their concatenation: same outputs; same outcome, except that
    --exit-status looks at the outputs for the last file (main.rs: one run per file)"""
    viol, stats = [], dict(files_ok=0, files_fail=0)
    d = tempfile.mkdtemp(prefix="c17f-", dir=os.path.join(core.ROOT, "build"))
    pools = {"json": [b"1 2 3\n", b"[1,2]\n[3]\n", b"{\"a\":1} {\"a\":[2,3]}\n", b"null\n", b"false\n", b"true false null\n", b"\n", b"", b"\"x\" \"y\"\n", b"[null,false]\n", b"0\n"],
             "raw": [b"a\nb\n", b"\n\n", b"x\n", b"", b"l1\r\nl2\n", b"\xff\n"],
             "raw0": [b"a\0b\0", b"a\0\0\0", b"\0\0", b"\0", b"", b"x\0", b"a\nb\0"]}
    last_extra = {"json": [b"1 2 oops 3", b"[1,", b"4"], "raw": [b"no newline"], "raw0": [b"a\0b", b"a"]}
    optsets = [[], ["-c"], ["-e"], ["-ce"], ["-r"], ["-j"], ["-S", "-c"], ["-e", "-r"]]
    filters = [f for f in FILTERS if "halt" not in f] + ["select(.)", ".[]?", "if . then . else empty end", "not", "length", "empty", "select(. == null)"]
    jobs, meta = [], []
    n = 160 if tier == "quick" else 3000
    for i in range(n):
        kind = rng.choice(["json", "json", "json", "raw", "raw0"])
        k = rng.randint(1, 3)
        contents = [rng.choice(pools[kind]) for _ in range(k)]
        if rng.random() < 0.2:
            contents[-1] = rng.choice(last_extra[kind])
        names = []
        for j, c in enumerate(contents):
            nm = "f%d_%d" % (i, j)
            with open(os.path.join(d, nm), "wb") as fh:
                fh.write(c)
            names.append(nm)
        o = list(rng.choice(optsets)) + {"json": [], "raw": ["-R"], "raw0": ["--raw-input0"]}[kind]
        f = rng.choice(filters)
        jobs.append(dict(args=o + [f] + names, stdin=b"", cwd=d))
        jobs.append(dict(args=o + [f], stdin=b"".join(contents), cwd=d))
        jobs.append(dict(args=o + [f], stdin=contents[-1], cwd=d))
        meta.append((o, f, contents))
    res = cli.run_many(jobs)
    for i, (o, f, contents) in enumerate(meta):
        (rc, out, err), (rc2, out2, err2), (rc3, out3, err3) = res[3 * i], res[3 * i + 1], res[3 * i + 2]
        want = rc2
        if rc2 in (0, 1, 4) and any("e" in a for a in o if a.startswith("-") and not a.startswith("--")):
            want = rc3 if rc3 in (0, 1, 4) else rc2
        if out != out2 or rc != want:
            stats["files_fail"] += 1
            viol.append(dict(key="cli-files:" + ("status" if out == out2 else "output"),
                             what="jaq %s %r on files %r: stdout %r status %d; the same inputs on stdin: %r status %d (last file alone: %d)" % (" ".join(o), f, contents, out[:120], rc, out2[:120], rc2, rc3),
                             case=dict(filter=f, kind="cli-files", args=o + [f], files=[c.decode("latin-1") for c in contents]), impl=None))
        else:
            stats["files_ok"] += 1
    import shutil
    shutil.rmtree(d, ignore_errors=True)
    return viol, stats, len(jobs)


def interleaving(rng, tier):
    """each output is written before the next is computed: messages that computing the next output sends to stderr appear
    after the previous output when both streams are one pipe"""
    viol, stats = [], dict(interleave_ok=0, interleave_fail=0)
    jobs, meta = [], []
    for i in range(60 if tier == "quick" else 1500):
        items = []
        for _ in range(rng.randint(2, 6)):
            v = rng.choice([1, 2, 30, "s", "t u", [1, 2], {"a": 1}])
            items.append((rng.choice(["out", "out", "dbg", "dbgout", "err"]), v))
        o = rng.choice([["-c"], ["-c"], ["-cr"], ["-cj"], ["-c", "-S"], ["--raw-output0", "-c"]])
        inputs = rng.choice([None, b"0", b"0 1", b"0\n1\n2\n"])
        parts, exp1 = [], []
        for kind, v in items:
            js = json.dumps(v, separators=(",", ":"))
            raw = v.encode() if isinstance(v, str) and ("-cr" in o or "-cj" in o or "--raw-output0" in o) else js.encode()
            end = b"" if "-cj" in o else (b"\0" if "--raw-output0" in o else b"\n")
            dbg = b'["DEBUG:", ' + js.encode() + b"]\n"
            if kind == "out":
                parts.append(js); exp1.append(raw + end)
            elif kind == "dbg":
                parts.append("(%s | debug | empty)" % js); exp1.append(dbg)
            elif kind == "dbgout":
                parts.append("(%s | debug)" % js); exp1.append(dbg + raw + end)
            else:
                parts.append("(%s | stderr | empty)" % js); exp1.append(v.encode() if isinstance(v, str) else js.encode())
        prog = ", ".join(parts)
        reps = 1 if inputs is None else len(inputs.split())
        jobs.append(dict(args=o + (["-n"] if inputs is None else []) + [prog], stdin=inputs or b"", merge=True))
        meta.append((o, prog, inputs, b"".join(exp1) * reps))
    res = cli.run_many(jobs)
    for (o, prog, inputs, want), (rc, out, _) in zip(meta, res):
        if out != want or rc != 0:
            stats["interleave_fail"] += 1
            viol.append(dict(key="cli-order:interleaving", what="jaq %s %r with stdout and stderr on one pipe wrote %r (status %d); written as computed it is %r" % (" ".join(o), prog, out[:200], rc, want[:200]),
                             case=dict(filter=prog, kind="cli-interleave", args=o + [prog], stdin=(inputs or b"").decode()), impl=None))
        else:
            stats["interleave_ok"] += 1
    return viol, stats, len(jobs)


def dialogues(rng, tier):
    """a peer that sends each input only after it has read the previous output gets its answers"""
    viol, stats = [], dict(dialogue_ok=0, dialogue_fail=0)
    T = [(["-nc", "\"ready\", [input]"], [b"\"go\"\n"], [b"\"ready\"", b"[\"go\"]"]),
         (["-nc", "1, input, input"], [b"10\n", b"20\n"], [b"1", b"10", b"20"]),
         (["-c", "., input"], [None, b"5 6\n"], None),
         (["-nr", "\"a\", (input | tostring), \"b\", (input | tostring)"], [b"1\n", None, b"2\n"], [b"a", b"1", b"b", b"2"]),
         (["-nc", "[1,2], {a: input}"], [b"null\n"], [b"[1,2]", b"{\"a\":null}"]),
         (["-n", "--raw-input", "\"q\", input"], [b"line\n"], [b"\"q\"", b"\"line\""])]
    n = 0
    for args, answers, want in T:
        if want is None:
            continue
        lines, st = cli.dialogue(args, answers)
        n += 1
        if lines != want or st != 0:
            stats["dialogue_fail"] += 1
            viol.append(dict(key="cli-order:dialogue", what="jaq %s: a peer that answers each output with the next input read %r (%s); expected %r" % (" ".join(args), lines, st, want),
                             case=dict(filter=args[-1], kind="cli-dialogue", args=args, answers=[a.decode() if a else None for a in answers]), impl=None))
        else:
            stats["dialogue_ok"] += 1
    return viol, stats, n
