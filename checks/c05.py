"""C05: no filter text, argument value or input document can crash jaq."""
import concurrent.futures
import itertools
import os
import random
import select
import subprocess
import tempfile
import time
import core
import jq
import cli
import sx
import manual
from values import *
from programs import Gen, Scope

RULE = ("(a) filter texts: generated valid programs, the manual's examples and the three defs.jq, mutated at byte and token level (delete, "
        "insert, replace, duplicate, truncate, splice a token from a list of keywords/operators/brackets/string and escape pieces/"
        "numbers/unicode) plus random token sequences, through load+compile with diagnostics rendered plain and coloured, every reported "
        "span inside the text on character boundaries; accepted mutants are run; (b) every native filter and every definition of the "
        "three defs.jq discovered from the current tree, plus the operators, on tuples (input, arguments) over a pool of boundary values: "
        "exhaustive up to two value arguments, sampled above, filter arguments from a pool of closures, results and errors rendered; "
        "(c) documents per format (json, yaml, cbor, toml, xml, csv, tsv, raw, raw0): valid documents mutated at byte level, through both "
        "reader entry points, plain and slurped, decoded values written back; invalid UTF-8 filter arguments and files through the "
        "command line; non-trivial = distinct text / tuple / document; debug build (integer overflow and debug assertions panic)")
ASSUMPTIONS = ["a crash is a panic caught in the harness, an abnormal exit of the harness, or exit status 101 / a signal of the jaq binary",
               "excepted as the property says: aborts on failed allocations (address space limited to 6 GB), `capacity overflow`, stack overflow; "
               "a tuple that does not answer within 6 s is a hang, not a crash"]
PARTIAL = ["a total Gallina model cannot exhibit a panic: the theorems are the guards (machine integers stay in range, indices and slices stay "
           "inside, string positions fall on character boundaries, calendar conversions stay in range) and the search for a panic is a test"]

TOKENS = ["|", ",", "//", "?//", "=", "|=", "+=", "//=", "and", "or", "not", "==", "!=", "<", "<=", "+", "-", "*", "/", "%", "(", ")", "[", "]", "{", "}", ":", ";", ".", "..", "?",
          "$x", "$__loc__", "$ENV", "$", "@base64", "@sh \"a\\(", "\"", "\"\\(", ")\"", "\\u00", "\\ud800", "\\q", "\"\\u12", "def f:", "def f(g; $x):", "if", "then", "elif", "else", "end",
          "try", "catch", "reduce", "foreach", "as", "label", "break", "import \"a\" as a;", "include \"x\";", "import \"a\" as $a {search: 1};", "1e99999", "0x10", "1.", ".e1", "1e", "9223372036854775808",
          "0.000000000000000000000000000001", ".a", ".\"a\"", ".[0]", ".[1:2]", ".[]", "..a", ".a.b?", "#", "#\n", "\r\n", "\x00", "é", "\U0001F600", "\u200b", "\t", "'", "`", "~", "^", "&", "\\", "::", "a::b",
          "limit(1;", "first(", "input", "$a::b", "{a:", "{(1):", "{\"a\"", "{$x", "{@base64", "-", "--1", "?//", ". as [$a, {b: $c}] |", ". as {a: [$x]} ?// $x |", "nan", "infinite", "ltrimstr(", "@", "@\"", "@x \"y\""]


def mutate(rng, t):
    b = bytearray(t.encode("utf-8"))
    for _ in range(rng.choice([1, 1, 1, 2, 3])):
        k = rng.random()
        if not b:
            b += rng.choice(TOKENS).encode()
            continue
        i = rng.randrange(len(b))
        if k < 0.2:
            del b[i:i + rng.randint(1, 3)]
        elif k < 0.35:
            b[i] = rng.randrange(256) if rng.random() < 0.3 else rng.choice(b"()[]{}\"\\|,.$@#;:?/-+*%=<>! \n")
        elif k < 0.65:
            b[i:i] = (" " + rng.choice(TOKENS) + " ").encode() if rng.random() < 0.7 else rng.choice(TOKENS).encode()
        elif k < 0.75:
            j = rng.randrange(i, len(b) + 1)
            b[i:i] = b[i:j]
        elif k < 0.85:
            del b[i:]
        elif k < 0.9:
            del b[:i]
        else:
            j = rng.randrange(len(b))
            b[i], b[j] = b[j], b[i]
    return bytes(b)


def filter_texts(rng, tier):
    base = []
    g = Gen(rng, max_depth=4)
    for _ in range(150 if tier == "quick" else 1500):
        base.append(g.term(Scope(vars=[]), None))
    for ex in manual.examples():
        base.append(ex[1])
    for f in ["jaq-core/src/defs.jq", "jaq-std/src/defs.jq", "jaq-json/src/defs.jq"]:
        txt = open(os.path.join("/repo", f)).read()
        base.append(txt + " .")
        for ln in txt.split("\n"):
            if ln.startswith("def "):
                base.append(ln + " .")
    base += ["\"a\\(1 + \"b\\(2)\")c\"", "@json \"x\\(.)\"", ". as [$a, {b: [$c]}] ?// $a | $a", "label $f | 1, break $f", "def f($a; g): def h: g | f($a; h); h; f(1; .)",
             "reduce .[] as [$a, $b] (0; . + $a)", "foreach .[] as $x (0; . + $x; [$x, .])", "if . then 1 elif 2 then 3 else 4 end", "try error catch .", ".a.b.c?[1:][0]? // 1",
             "{a: 1, \"b\": 2, (\"c\"): 3, $__loc__, @base64 \"x\": 1}", ".[] |= (. + 1)", "import \"a\" as a; a::f", "\"\\u00e9\\ud83d\\ude00\\t\"", "1 as $x | 2 as $y | [$x, $y, $__loc__]"]
    out = []
    seen = set()
    for t in base:                      # the texts themselves (the manual's examples are run as they are)
        b = t.encode("utf-8")
        if b not in seen and len(b) < 400:
            seen.add(b)
            out.append(b)
    # every interesting character at every position of short programs (token boundaries of the lexer)
    seeds = [".", ".a", ".a.b", "..", ".[0]", ".a?", ".\"a\"", ".a.\"b\"", "$x", "$__loc__", "@base64", "@base64 \"x\"", "\"a\\(1)b\"", "\"\\u00e9\"", "1.5e3", "0.1", "1e-2", "def f: .; f", "a::b", "$a::b",
             ". as $x | $x", ". as [$a] | $a", "{a: 1}", "{$x}", "{\"a\": 1}", "[.[]?]", ".[1:2]", "if . then 1 else 2 end", "try . catch .", "label $l | break $l", "reduce . as $x (0; .)",
             "import \"a\" as a; .", "include \"a\"; .", "# c\n.", ". // 1", ". |= 1", ". and true", "-1", "?//", ".a[]"]
    chars = ["é", "€", "\U0001F600", "\u0301", "\u00a0", "\u2028", "\ufeff", "\x00", "\x7f", "A", "_", "0", ".", "$", "@", "\"", "\\", "#", "?", ":"]
    for sd in seeds:
        for i in range(len(sd) + 1):
            for ch in (chars if tier != "quick" else chars[:12]):
                b = (sd[:i] + ch + sd[i:]).encode("utf-8")
                if b not in seen:
                    seen.add(b)
                    out.append(b)
    n = len(out) + (1500 if tier == "quick" else 20000)
    while len(out) < n:
        t = rng.choice(base)
        m = mutate(rng, t) if rng.random() < 0.85 else " ".join(rng.choice(TOKENS) for _ in range(rng.randint(1, 10))).encode()
        if m not in seen:
            seen.add(m)
            out.append(m)
    return out


DEEP = A()
for _ in range(40):
    DEEP = A(DEEP)
BIGARR = A(*[I(i) for i in range(300)])

POOL_CORE = [NULL, TRUE, FALSE, I(0), I(1), I(-1), B(0), B(-1), I(ISIZE_MAX), I(ISIZE_MIN), B(2 ** 63), B(10 ** 30), F(0.5), NEG_ZERO, NAN, POS_INF, NEG_INF,
             F(1e308), F(9.3e18), I(2 ** 31), S(""), S("a"), S("é€\U0001F600"), S(b"\xff\xc3"), Y(b"\x00\xff"), A(), A(I(1), I(2), I(3)), A(S("a"), I(0)), O(), O((S("a"), I(1)))]
POOL_MORE = [B(-2 ** 63 - 1), F(5e-324), F(-9.3e18), D("1e1000"), D("-0.0"), I(-2 ** 31 - 1), I(2 ** 32), I(255), I(256), I(-256), F(1e19), F(-1e19), F(2.5), I(1 << 52), I(-(1 << 53)),
             S("a" * 300), S("%Y-%m-%dT%H:%M:%SZ"), S("%"), S("%Q %"), S("(?<x>a)|["), S("a*"), S("(?:(a)|(b))*"), S("ba"), S("2015-03-05T23:51:47Z"), S("g"), S("gx"), S("1e1000"), S("-"), S("\x00"), S("9" * 400), S("nan"),
             S("[1,2"), S("{\"a\":"), Y(b""), Y(b"\xf0\x9f"), A(A()), A(NULL), A(I(-1)), A(I(ISIZE_MIN)), A(I(ISIZE_MAX), I(ISIZE_MAX)), A(S("a"), S("b")), A(O((S("start"), I(1)), (S("end"), NULL))),
             O((S("start"), I(-1)), (S("end"), I(ISIZE_MIN))), O((I(1), I(2))), O((S("key"), S("k")), (S("value"), I(1))), A(O((S("key"), NULL), (S("value"), I(1)))), DEEP, BIGARR,
             A(I(2015), I(2), I(5), I(23), I(51), I(47), I(4), I(63)), A(F(1e18), I(0), I(0), I(0), I(0), I(0), I(0), I(0)), A(I(ISIZE_MAX), I(ISIZE_MAX), I(ISIZE_MAX), I(0), I(0), I(0)),
             A(I(1970), I(-1), I(0), I(0), I(0), F(-0.5)), A(NAN), A(I(65), I(0x10FFFF), I(0xD800), I(-1), I(0x110000)), I(0x10FFFF), I(0xD800), I(0x110000)]
FPOOL = [".", "empty", "error", ".[]?", "(1, null)", "$a0"]
OPERATORS = [(". + $a0", 1), (". - $a0", 1), (". * $a0", 1), (". / $a0", 1), (". % $a0", 1), ("-(.)", 0), (".[$a0]", 1), (".[$a0:$a1]", 2), (".[$a0:]", 1), (".[:$a0]", 1), (".[$a0] = $a1", 2),
             (".[$a0:$a1] = $a2", 3), (".[$a0] |= $a1", 2), ("del(.[$a0])", 1), ("del(.[$a0:$a1])", 2), ("to_entries", 0), (". == $a0", 1), (". < $a0", 1), ("[., $a0] | sort", 1), ("{(.): $a0}", 1),
             ("\"\\(.)\\($a0)\"", 1), ("@sh \"\\(.)\"", 0), ("@csv \"\\(.)\"", 0), (". as [$x, {a: $y}] | [$x, $y]", 0), (".. ", 0), ("path(..)", 0), ("[paths]", 0), ("getpath($a0)", 1), ("setpath($a0; $a1)", 2),
             ("delpaths($a0)", 1), ("[limit($a0; .[]?)]", 1), ("[range($a0; $a1; $a2)] | length", 3), ("reduce .[]? as $x ($a0; . + $x)", 1), ("foreach .[]? as $x ($a0; . + $x; [$x, .])", 1),
             ("try error catch .", 0), ("try error($a0) catch .", 1), ("label $f | (., break $f)", 0), (". // $a0", 1), ("if . then $a0 else $a1 end", 2), ("$a0 | tojson | fromjson", 1),
             ("[.[]?] | length", 0), (".[$a0]?", 1), ("..[$a0]?", 1), (".[$a0][$a1]?", 2), ("first(.[$a0:$a1][]?)", 2), ("ltrimstr($a0) | rtrimstr($a0)", 1), ("tojson", 0), ("@json", 0), ("@text", 0),
             ("tostring", 0), ("[.] | @csv", 0), ("[.] | @tsv", 0), ("@html", 0), ("@uri", 0), ("@base64", 0), ("@base64d", 0), ("@urid", 0), ("@htmld", 0), ("@sh", 0), ("toyaml", 0), ("tocbor", 0),
             ("totoml", 0), ("toxml", 0), ("tocsv", 0), ("totsv", 0), ("fromyaml", 0), ("fromcbor", 0), ("fromtoml", 0), ("fromxml", 0), ("fromcsv", 0), ("fromtsv", 0), ("fromjson", 0)]


def callables():
    """(call text with $a0.. and @Fi for filter parameters, number of value args, number of filter args, label)"""
    res = core.run_cases(core.JAQH, [["n", "natives"], ["c", "defs", "core"], ["s", "defs", "std"], ["j", "defs", "json"]])
    out = []
    seen = set()
    for name, kinds in res["n"]:
        name = name.decode()
        ks = kinds[1:]
        key = (name, len(ks))
        if key in seen:
            continue
        seen.add(key)
        args, nv, nf = [], 0, 0
        for k in ks:
            if k == "v":
                args.append("$a%d" % nv)
                nv += 1
            else:
                args.append("@F%d" % nf)
                nf += 1
        out.append((name + ("(" + "; ".join(args) + ")" if args else ""), nv, nf, "native " + name + "/" + str(len(ks))))
    for which in "csj":
        for d in res[which]:
            name, params = d[0].decode(), [p.decode() for p in d[1]]
            key = (name, len(params))
            if key in seen:
                continue
            seen.add(key)
            args, nv, nf = [], 0, 0
            for p in params:
                if p.startswith("$"):
                    args.append("$a%d" % nv)
                    nv += 1
                else:
                    args.append("@F%d" % nf)
                    nf += 1
            out.append((name + ("(" + "; ".join(args) + ")" if args else ""), nv, nf, "def " + name + "/" + str(len(params))))
    for t, nv in OPERATORS:
        out.append((t, nv, 0, "operator " + t))
    return out


def sweep_one(job):
    """runs one compiled filter over its tuples, restarting after hangs and aborts; -> dict(panics, hangs, aborts, ran)"""
    text, nvars, pool, mode, seed, count, label = job
    start = 0
    res = dict(panics=[], hangs=[], aborts=[], ran=0, label=label, text=text, compile_error=False)
    total = None
    restarts = 0
    while True:
        cmd = [text.encode(), str(nvars), pool, str(start), mode] + ([str(seed), str(count)] if mode != "all" else [])
        errf = tempfile.TemporaryFile()
        p = subprocess.Popen(core.limited([core.JAQH, "--sweep"]), stdin=subprocess.PIPE, stdout=subprocess.PIPE, stderr=errf)
        try:
            p.stdin.write(sx.dumps(cmd).encode("utf-8"))
            p.stdin.close()
        except BrokenPipeError:
            pass
        last_t, last_digits, buf, done, hang = None, None, b"", False, False
        last_time = time.time()
        while True:
            r, _, _ = select.select([p.stdout], [], [], 1.0)
            if r:
                data = os.read(p.stdout.fileno(), 1 << 16)
                if not data:
                    break
                buf += data
                lines = buf.split(b"\n")
                buf = lines.pop()
                for ln in lines:
                    if ln.startswith(b"t "):
                        parts = ln.split()
                        last_t, last_digits = int(parts[1]), [int(x) for x in parts[2:]]
                        res["ran"] += 1
                    elif ln.startswith(b"p "):
                        parts = ln.split(b" ", 2)
                        res["panics"].append((int(parts[1]), list(last_digits or []), parts[2].decode("utf-8", "replace")[:300]))
                    elif ln.startswith(b"done"):
                        done = True
                    elif ln.startswith(b"compile-error"):
                        res["compile_error"] = True
                        done = True
                last_time = time.time()
            elif time.time() - last_time > 6.0:
                hang = True
                p.kill()
                break
        p.wait()
        if done:
            break
        errf.seek(0)
        tail = errf.read()[-600:]
        if last_t is None:
            res["aborts"].append((-1, [], "no progress: " + tail.decode("utf-8", "replace")[-200:]))
            break
        if hang:
            res["hangs"].append((last_t, last_digits))
        else:
            why = "memory" if b"memory allocation of" in tail else ("stack" if b"overflowed its stack" in tail else "abort: " + tail.decode("utf-8", "replace")[-200:])
            res["aborts"].append((last_t, last_digits, why))
        start = last_t + 1
        restarts += 1
        if restarts > 12:
            res["truncated"] = True
            break
    return res


def repl_session(cmds, wait=1.0):
    """runs `jaq -n repl` on a pseudo-terminal, enters the commands and end-of-input; -> (exit status or None, terminal output)"""
    import pty
    J = cli.jaq_bin()
    pid, fd = pty.fork()
    if pid == 0:
        os.environ["RUST_BACKTRACE"] = "0"
        os.environ["HOME"] = tempfile.gettempdir()
        os.environ["NO_COLOR"] = "1"
        try:
            os.execv(J, [J, "-n", "repl"])
        finally:
            os._exit(127)
    out = b""

    def rd(t):
        nonlocal out
        end = time.time() + t
        while time.time() < end:
            r, _, _ = select.select([fd], [], [], 0.1)
            if r:
                try:
                    data = os.read(fd, 4096)
                except OSError:
                    return False
                if not data:
                    return False
                out += data
        return True
    alive = rd(wait)
    for c in cmds:
        if not alive:
            break
        try:
            os.write(fd, c + b"\n")
        except OSError:
            break
        alive = rd(wait)
    for _ in range(4):      # end of input at every nesting level of repl
        try:
            os.write(fd, b"\x04")
        except OSError:
            break
        rd(0.3)
    st = None
    for _ in range(50):
        try:
            p, status = os.waitpid(pid, os.WNOHANG)
        except ChildProcessError:
            break
        if p:
            st = os.waitstatus_to_exitcode(status)
            break
        time.sleep(0.1)
    if st is None:
        try:
            os.kill(pid, 9)
            os.waitpid(pid, 0)
        except OSError:
            pass
    try:
        os.close(fd)
    except OSError:
        pass
    return st, out


def excepted_panic(msg):
    return "capacity overflow" in msg or "memory allocation" in msg


def custom(ctx):
    rng, tier, seed = ctx["rng"], ctx["tier"], ctx["seed"]
    core.MEMLIMIT = 6 << 30
    stats = {}
    viol = []
    samples = []
    distinct = set()
    evaluations = 0

    # (a) filter texts
    texts = filter_texts(rng, tier)
    utf8 = []
    for t in texts:
        try:
            t.decode("utf-8")
            utf8.append(t)
        except UnicodeDecodeError:
            pass
    cases = [["d%d" % i, "diag", t] for i, t in enumerate(utf8)]
    res = core.run_cases(core.JAQH, cases, per_case_timeout=20.0)
    accepted = []
    for i, t in enumerate(utf8):
        r = res.get("d%d" % i)
        evaluations += 1
        distinct.add(t)
        k = r[0] if isinstance(r, list) and r else "none"
        stats["filter:" + k] = stats.get("filter:" + k, 0) + 1
        if k == "accepted":
            accepted.append(t)
        elif k == "rejected":
            if r[4] != "inside" or int(r[1]) == 0:
                viol.append(dict(key="diagnostic-span", what="a diagnostic for %r points outside the text or is empty: spans %s, text length %s" % (t[:200], sx.dumps(r[2]), r[3]),
                                 case=dict(filter=t.decode(), kind="filter-text"), impl=r))
        elif k in ("panic", "crash", "empty-report"):
            if k == "crash" and len(r) > 2 and r[2] in ("memory", "stack"):
                stats["filter:excepted-" + r[2]] = stats.get("filter:excepted-" + r[2], 0) + 1
                continue
            viol.append(dict(key="filter-text-crash:" + (sx.dumps(r)[:60]), what="loading %r ends in %s" % (t[:300], sx.dumps(r)[:300]), case=dict(filter=t.decode(), kind="filter-text"), impl=r))
        elif k == "timeout":
            stats["filter:timeout"] = stats.get("filter:timeout", 0) + 1
    # accepted mutants are run
    rcases = []
    for i, t in enumerate(accepted):
        for j, inp in enumerate([NULL, A(I(1), O((S("a"), S("b"))), A(I(2), NULL))]):
            rcases.append(["r%d_%d" % (i, j), "run", t, [], [inp], "6"])
    rres = core.run_cases(core.JAQH, rcases, per_case_timeout=8.0)
    for (cid, _, t, _, inp, _) in rcases:
        r = rres.get(cid)
        evaluations += 1
        k = r[0] if isinstance(r, list) and r else "none"
        stats["run:" + k] = stats.get("run:" + k, 0) + 1
        if k == "panic" and not excepted_panic(sx.dumps(r)):
            viol.append(dict(key="run-panic:" + sx.dumps(r)[:80], what="running the accepted filter %r panics: %s" % (t[:300], sx.dumps(r)[:300]), case=dict(filter=t.decode(), kind="filter-run", inputs=inp), impl=r))
        elif k == "crash" and not (len(r) > 2 and r[2] in ("memory", "stack")):
            viol.append(dict(key="run-crash", what="running the accepted filter %r kills the process: %s" % (t[:300], sx.dumps(r)[:100]), case=dict(filter=t.decode(), kind="filter-run", inputs=inp), impl=r))
    # invalid UTF-8 through the command line
    bad = [t for t in texts if t not in utf8 and b"\x00" not in t][:40] + [b"\xff", b".a\xc3", b"\"\xed\xa0\x80\""]
    d = tempfile.mkdtemp(prefix="c05-", dir=os.path.join(core.ROOT, "build"))
    jobs = []
    for i, t in enumerate(bad):
        fp = os.path.join(d, "f%d.jq" % i)
        open(fp, "wb").write(t)
        jobs.append(dict(args=["-n", "-f", fp]))
        jobs.append(dict(args=["-n", t]))
    for (rc, out, err), j in zip(cli.run_many(jobs), jobs):
        evaluations += 1
        if rc == 101 or rc < 0 or b"panicked" in err:
            viol.append(dict(key="cli-filter-crash", what="jaq %r: status %d, %r" % (j["args"], rc, err[-300:]), case=dict(filter=repr(j["args"]), kind="cli-filter"), impl=None))
    # filter texts entered at the interactive prompt (`repl` reads from the terminal: run under a pseudo-terminal)
    for cmds in ([b"1 + 1", b".", b"$undefined", b"input_filename", b"error", b"[limit(3; repeat(1))]", b"{", b"\"\\(1)\""],
                 [b"def f: f; 1", b"..", b"1 as $x | repl", b"$x"]):
        evaluations += 1
        st, out = repl_session(cmds)
        if st != 0 or b"panicked" in out or (b"\n2\r\n" not in out and cmds[0] == b"1 + 1"):
            viol.append(dict(key="repl-crash", what="the commands %r entered at the `repl` prompt: exit status %s, terminal output ends with %r" % (cmds, st, out[-300:]),
                             case=dict(filter="repl", kind="repl", commands=[c.decode() for c in cmds]), impl=None))
        else:
            stats["cli_filter_ok"] = stats.get("cli_filter_ok", 0) + 1

    # (b) natives, definitions and operators on boundary tuples
    pool = list(POOL_CORE)
    more = list(POOL_MORE)
    random.Random(seed).shuffle(more)
    pool += more[:8] if tier == "quick" else more
    pool1 = POOL_CORE + POOL_MORE      # unary and nullary calls see the whole pool
    cs = callables()
    jobs = []
    for text, nv, nf, label in cs:
        fcombos = list(itertools.product(FPOOL, repeat=nf))
        if len(fcombos) > 12:
            # keep the combinations that hand a pool value on as a filter argument (regular expressions, flags, keys, ...)
            withvar = [fc for fc in fcombos if "$a0" in fc]
            rnd = random.Random(seed + len(text))
            fcombos = rnd.sample(withvar, min(6, len(withvar))) + rnd.sample(fcombos, 6)
        nv_decl = nv
        for fc in fcombos:
            t = text
            for i, f in enumerate(fc):
                t = t.replace("@F%d" % i, f)
            nv = max(nv_decl, 1) if "$a0" in fc else nv_decl     # a filter argument may be a value of the pool
            use = pool1 if nv <= 1 else pool
            total = len(use) ** (1 + nv)
            cap = 60000 if tier == "quick" else 400000
            if nv <= 2 and total <= cap:
                jobs.append((t, nv, use, "all", 0, 0, label))
            elif nv <= 2:
                jobs.append((t, nv, POOL_CORE, "all", 0, 0, label))
                jobs.append((t, nv, pool1, "sample", seed + 1, cap // 4, label))
            else:
                jobs.append((t, nv, pool1, "sample", seed + 1, cap // 4, label))
    with concurrent.futures.ThreadPoolExecutor(max_workers=core.NCPU) as ex:
        results = list(ex.map(sweep_one, jobs))
    per_label = {}
    for job, r in zip(jobs, results):
        evaluations += r["ran"]
        stats["tuples"] = stats.get("tuples", 0) + r["ran"]
        stats["hangs"] = stats.get("hangs", 0) + len(r["hangs"])
        per_label[r["label"]] = per_label.get(r["label"], 0) + r["ran"]
        if r["compile_error"]:
            stats["sweep_compile_error"] = stats.get("sweep_compile_error", 0) + 1
            continue
        distinct.add(r["text"])
        usepool = job[2]
        for (t, digits, msg) in r["panics"]:
            if excepted_panic(msg):
                stats["excepted_capacity"] = stats.get("excepted_capacity", 0) + 1
                continue
            inp = usepool[digits[0]]
            vs = [("a%d" % i, usepool[dg]) for i, dg in enumerate(digits[1:])]
            viol.append(dict(key="panic:%s:%s" % (r["label"], msg[:80]), what="%s panics on input %s with %s: %s" % (r["text"], sx.dumps(inp)[:100], [(n, sx.dumps(v)[:60]) for n, v in vs], msg),
                             case=dict(filter=r["text"], kind="native", inputs=[inp], vars=vs), impl=["panic", msg.encode()]))
        for ab in r["aborts"]:
            if len(ab) > 2 and ab[2] in ("memory", "stack"):
                stats["excepted_" + ab[2]] = stats.get("excepted_" + ab[2], 0) + 1
                continue
            digits = ab[1]
            inp = usepool[digits[0]] if digits else NULL
            vs = [("a%d" % i, usepool[dg]) for i, dg in enumerate(digits[1:])]
            viol.append(dict(key="abort:%s" % r["label"], what="%s kills the process on input %s with %s: %s" % (r["text"], sx.dumps(inp)[:100], [(n, sx.dumps(v)[:60]) for n, v in vs], ab[2] if len(ab) > 2 else ""),
                             case=dict(filter=r["text"], kind="native", inputs=[inp], vars=vs), impl=None))
    samples.append(dict(callables=len(cs), compiled_variants=len(jobs), pool=len(pool), pool_unary=len(pool1)))

    # (c) documents
    docs = documents(rng, tier)
    dcases = [["x%d" % i, "decode", fmt, doc] for i, (fmt, doc) in enumerate(docs)]
    dres = core.run_cases(core.JAQH, dcases, per_case_timeout=15.0)
    for i, (fmt, doc) in enumerate(docs):
        r = dres.get("x%d" % i)
        evaluations += 1
        distinct.add((fmt, doc))
        k = r[0] if isinstance(r, list) and r else "none"
        stats["doc:%s:%s" % (fmt, k)] = stats.get("doc:%s:%s" % (fmt, k), 0) + 1
        if k == "panic" and not excepted_panic(sx.dumps(r)):
            viol.append(dict(key="doc-panic:%s:%s" % (fmt, sx.dumps(r)[:70]), what="reading the %s document %r panics: %s" % (fmt, doc[:200], sx.dumps(r)[:300]),
                             case=dict(filter="--from " + fmt, kind="document", doc=doc.decode("latin-1")), impl=r))
        elif k == "crash" and not (len(r) > 2 and r[2] in ("memory", "stack")):
            viol.append(dict(key="doc-crash:" + fmt, what="reading the %s document %r kills the process: %s" % (fmt, doc[:200], sx.dumps(r)[:100]),
                             case=dict(filter="--from " + fmt, kind="document", doc=doc.decode("latin-1")), impl=r))
        elif k == "timeout":
            stats["doc:timeout"] = stats.get("doc:timeout", 0) + 1
    # a sample through the binary itself, every output format
    cj = []
    for fmt, doc in rng.sample(docs, 120 if tier == "quick" else 1500):
        cj.append(dict(args=["--from", fmt, "--to", rng.choice(["json", "yaml", "cbor", "toml", "xml", "csv", "tsv", "raw"]), rng.choice([".", "..", ".[]?", "tojson", "keys?"])], stdin=doc, timeout=15))
    for (rc, out, err), j in zip(cli.run_many(cj), cj):
        evaluations += 1
        if rc == 101 or (rc < 0 and rc != -999) or b"panicked" in err:
            if b"memory allocation" in err or b"capacity overflow" in err or b"overflowed its stack" in err:
                continue
            viol.append(dict(key="cli-doc-crash:" + j["args"][1], what="jaq %s on %r: status %d, %r" % (" ".join(j["args"]), j["stdin"][:200], rc, err[-300:]),
                             case=dict(filter=" ".join(j["args"]), kind="cli-document", stdin=j["stdin"].decode("latin-1")), impl=None))
        else:
            stats["cli_doc_ok"] = stats.get("cli_doc_ok", 0) + 1
    import shutil
    shutil.rmtree(d, ignore_errors=True)
    core.MEMLIMIT = 0
    cov = dict(tuples_per_callable_min=min(per_label.values()) if per_label else 0, callables=len(per_label),
               filter_texts=len(texts), accepted_and_run=len(accepted), documents=len(docs))
    return dict(stats=stats, evaluations=evaluations, distinct=set(map(str, distinct)), violations=viol, samples=samples, coverage=cov)


VALID_DOCS = {
    "json": [b"{\"a\": [1, 2.5e3, \"x\\u00e9\\n\", null, true, {\"b\": {}}], \"c\": -0.0}", b"[1,[2,[3,[4]]]] \"s\" 1e400 nan NaN Infinity -Infinity", b"b\"\\xff\\x00\" {\"a\":1,\"a\":2} [1,] # c\n 2",
             b"{1: 2, [3]: 4, null: 5, {\"a\":1}: 6}", b"1 2 3\n\"a\"\n[]{}", b"123456789012345678901234567890 0.1e-999 -0 00 1.0"],
    "yaml": [b"a: 1\nb:\n  - x\n  - {y: [1, 2.5, ~, true, .inf, -.inf, .nan]}\nc: |\n  multi\n  line\nd: \"q\\u00e9\"\n", b"--- &a [1, 2]\n--- *a\n--- !!str 1\n--- !!binary AP8=\n--- !!int 0x1F\n--- !!float 1e3\n...\n",
             b"? [1, 2]\n: v\n? {a: 1}\n: w\n1: one\n~: null\n", b"- &x {a: &y [1]}\n- *x\n- *y\n- <<: {b: 2}\n", b"%YAML 1.2\n---\n'single ''q'''\n--- >\n folded\n text\n", b"{a: [1, {b: [2, {c: 3}]}], \"k\": 'v'}", b"- 0o17\n- 0b101\n- +1\n- 1_000\n- 12:30:45\n- 2001-01-01\n- 0x\n", b"&a [*a]", b"x: &n {y: *n}", b"[&a 1, &b [*b]]", b"*unknown", b"&a &b 1", b"- &a\n  - *a\n",
             b"? &k a\n: *k\n", b"&a {*a : 1}", b"--- &a\n- *a\n--- *a\n"],
    "cbor": [bytes.fromhex("a26161820102616283f4f5f6"), bytes.fromhex("9f0102ff"), bytes.fromhex("bf6161f97e00ff"), bytes.fromhex("c249010000000000000000"), bytes.fromhex("c349010000000000000000"),
             bytes.fromhex("fb7ff0000000000000"), bytes.fromhex("5f42010243030405ff"), bytes.fromhex("7f657374726561646d696e67ff"), bytes.fromhex("d8184548656c6c6f"), bytes.fromhex("1bffffffffffffffff"),
             bytes.fromhex("3bffffffffffffffff"), bytes.fromhex("a201020304"), bytes.fromhex("8301820203820405"), bytes.fromhex("f97c00"), bytes.fromhex("fa7fc00000"), bytes.fromhex("c11a514b67b0"), bytes.fromhex("f0"), bytes.fromhex("f8ff"),
             bytes.fromhex("9b0000000100000000"), bytes.fromhex("bb0000000100000000"), bytes.fromhex("5b0000000100000000"), bytes.fromhex("c4820a0a")],
    "toml": [b"a = 1\nb = \"s\"\nc = [1, 2.5, true]\n[t]\nd = {e = 1, f = [{g = inf}, {h = -nan}]}\n[[arr]]\nx = 1\n[[arr]]\nx = 2\n", b"'lit' = '''multi\nline'''\n\"q\\u00e9\" = \"\"\"a\\\n  b\"\"\"\nd = 1979-05-27T07:32:00Z\n",
             b"a.b.c = 0x1F\n\"\" = 0o17\nx = 0b1\ny = 1_000\nz = +1e3\n", b"[a]\n[a.b]\n[[a.c]]\n[[a.c]]\n"],
    "xml": [b"<?xml version=\"1.0\"?><!DOCTYPE a SYSTEM \"a.dtd\" [<!ENTITY e \"v\">]><a b=\"1\" c='2'>t<d/>&e;&lt;<![CDATA[<x>]]><!-- c --><?pi d?></a>", b"<a xmlns:p=\"u\"><p:b p:c=\"d\"/></a>", b"<a>\xc3\xa9<b>x</b> y</a>\n",
            open("/repo/examples/test.xhtml", "rb").read()],
    "csv": [b"a,b,c\n1,\"x,\"\"y\",\r\ntrue,null,1e5\n\n\"\n\"", b",\n,,\r\n"],
    "tsv": [b"a\tb\\tc\t\\\\\n1\t\\n\ttrue\n\\q\t\\", b"\t\n\t\t\r\n"],
    "raw": [b"line1\nline2\r\n\xff\n\n", b"no newline"],
    "raw0": [b"a\x00b\x00\x00c", b"\x00"],
}


def documents(rng, tier):
    out = []
    n = 250 if tier == "quick" else 4000
    for fmt, vs in VALID_DOCS.items():
        for v in vs:
            out.append((fmt, v))
        k = n if fmt in ("json", "yaml", "cbor", "toml", "xml") else n // 3
        for _ in range(k):
            b = bytearray(rng.choice(vs))
            for _ in range(rng.choice([1, 1, 2, 3, 5])):
                if not b:
                    b += bytes([rng.randrange(256)])
                    continue
                i = rng.randrange(len(b))
                c = rng.random()
                if c < 0.3:
                    b[i] = rng.randrange(256)
                elif c < 0.5:
                    del b[i:i + rng.randint(1, 4)]
                elif c < 0.7:
                    b[i:i] = bytes(rng.choice([b"[", b"{", b"\"", b"\\", b"&", b"<", b"*a", b"&a ", b"!!", b"\xff", b"\x00", b"\x9f", b"\xbf", b"\x1b\xff\xff\xff\xff", b"9" * 30, b"e999", b"- ", b": ", b"\n", b"---\n", b"<!", b"]]>", b"\t", b","]))
                elif c < 0.8:
                    del b[i:]
                elif c < 0.9:
                    j = rng.randrange(i, len(b) + 1)
                    b[i:i] = b[i:j] * rng.randint(1, 3)
                else:
                    b[i] ^= 1 << rng.randrange(8)
            out.append((fmt, bytes(b)))
    # CBOR: the examples of RFC 8949 appendix A and the malformed documents of C14's reader cases, each also with a break byte put at and
    # written over every position (breaks where an item, a key, a value, a length or a tag's content is expected)
    from checks import c14
    cb = [bytes.fromhex(h) for h in c14.RFC8949_A] + VALID_DOCS["cbor"]
    for d in cb:
        out.append(("cbor", d))
    for d in (cb if tier != "quick" else rng.sample(cb, 60)):
        if len(d) <= 24:
            for i in range(len(d) + 1):
                out.append(("cbor", d[:i] + b"\xff" + d[i:]))
                if i < len(d):
                    out.append(("cbor", d[:i] + b"\xff" + d[i + 1:]))
    # nesting up to a depth that is not yet exhaustion
    for fmt, op, cl in [("json", b"[", b"]"), ("yaml", b"[", b"]"), ("json", b"{\"a\":", b"}"), ("xml", b"<a>", b"</a>"), ("toml", b"a = [" , b"]")]:
        for depth in (50, 200):
            out.append((fmt, op * depth + cl * depth))
            out.append((fmt, op * depth))
    out.append(("cbor", b"\x81" * 200 + b"\x01"))
    out.append(("cbor", b"\xc2" * 100 + b"\x41\x01"))
    return out
