From Coq Require Import List ZArith Lia String Bool Arith FunctionalExtensionality.
Import ListNotations.
Open Scope string_scope. Open Scope list_scope.

Inductive str := SNil | SCons (x : Z) (k : unit -> str) | SExn | SBot.
Fixpoint sapp (s : str) (r : unit -> str) : str :=
  match s with SNil => r tt | SCons x k => SCons x (fun _ => sapp (k tt) r) | SExn => SExn | SBot => SBot end.
Fixpoint sbind (s : str) (f : Z -> str) : str :=
  match s with SNil => SNil | SCons x k => sapp (f x) (fun _ => sbind (k tt) f) | SExn => SExn | SBot => SBot end.
Definition sone z := SCons z (fun _ => SNil).

(* ---------- named language ---------- *)
Inductive term := Id | Lit (z:Z) | Comma (a b:term) | As (a:term) (x:string) (b:term) | Var (x:string)
  | Def (f:string) (ps: list string) (body rest: term) | Call (f:string) (args: list term).

Inductive nbind := NVar (z:Z) | NFun (t:term) (e: list (string*nbind)) | NDef (ps: list string) (body: term).
Definition nenv := list (string * nbind).

Fixpoint nlookupv (x:string) (r:nenv) : option Z :=
  match r with
  | [] => None
  | (y, NVar z) :: r' => if String.eqb x y then Some z else nlookupv x r'
  | _ :: r' => nlookupv x r'
  end.
Fixpoint nlookupf (x:string) (r:nenv) : option (nbind * nenv) :=
  match r with
  | [] => None
  | (y, NVar z) :: r' => nlookupf x r'
  | (y, b) :: r' => if String.eqb x y then Some (b, r) else nlookupf x r'
  end.

Definition nbindargs (ps: list string) (args: list term) (r: nenv) : nenv :=
  rev (combine ps (map (fun a => NFun a r) args)).

Fixpoint sem (n:nat) : term -> nenv -> Z -> str :=
  fix go (t:term) : nenv -> Z -> str :=
  match t with
  | Id => fun r v => sone v
  | Lit z => fun r v => sone z
  | Comma a b => fun r v => sapp (go a r v) (fun _ => go b r v)
  | As a x b => fun r v => sbind (go a r v) (fun y => go b ((x, NVar y) :: r) v)
  | Var x => fun r v => match nlookupv x r with Some z => sone z | None => SExn end
  | Def f ps body rest => fun r v => go rest ((f, NDef ps body) :: r) v
  | Call f args => fun r v =>
      match nlookupf f r with
      | Some (NDef ps body, rf) =>
          if Nat.eqb (List.length ps) (List.length args) then
            match n with 0 => SBot | S n' => sem n' body (nbindargs ps args r ++ rf) v end
          else SExn
      | Some (NFun t r', _) =>
          match args with [] => match n with 0 => SBot | S n' => sem n' t r' v end | _ => SExn end
      | _ => SExn
      end
  end.

(* ---------- indexed language ---------- *)
Inductive iterm := IId | ILit (z:Z) | IComma (a b:iterm) | IAs (a b:iterm) | IVar (i:nat)
  | ICall (id:nat) (args: list iterm) (skip:nat) | IArg (i:nat) | IFail.
Inductive ibind := IV (z:Z) | IF (t:iterm) (e: list ibind).
Definition ienv := list ibind.

Section Run.
Variable table : list iterm.
Fixpoint run (n:nat) : iterm -> ienv -> Z -> str :=
  fix go (t:iterm) : ienv -> Z -> str :=
  match t with
  | IId => fun s v => sone v
  | ILit z => fun s v => sone z
  | IComma a b => fun s v => sapp (go a s v) (fun _ => go b s v)
  | IAs a b => fun s v => sbind (go a s v) (fun y => go b (IV y :: s) v)
  | IVar i => fun s v => match nth_error s i with Some (IV z) => sone z | _ => SExn end
  | ICall id args skip => fun s v =>
      match n with 0 => SBot | S n' =>
        match nth_error table id with
        | Some body => run n' body (rev (map (fun a => IF a s) args) ++ skipn skip s) v
        | None => SExn end end
  | IArg i => fun s v =>
      match n with 0 => SBot | S n' =>
        match nth_error s i with Some (IF t s') => run n' t s' v | _ => SExn end end
  | IFail => fun s v => SExn
  end.
End Run.

(* ---------- compiler ---------- *)
Inductive centry := CV (x:string) | CA (p:string) | CD (f:string) (ps: list string) (id:nat).
Definition ctx := list centry.

(* resolve variable: index among slots *)
Fixpoint cvar (x:string) (g:ctx) (i:nat) : option nat :=
  match g with
  | [] => None
  | CV y :: g' => if String.eqb x y then Some i else cvar x g' (S i)
  | CA _ :: g' => cvar x g' (S i)
  | CD _ _ _ :: g' => cvar x g' i
  end.

Inductive callres := RArg (i:nat) | RDef (ps: list string) (id skip:nat) | RNone.
Fixpoint ccall (f:string) (g:ctx) (i:nat) : callres :=
  match g with
  | [] => RNone
  | CV y :: g' => ccall f g' (S i)
  | CA p :: g' => if String.eqb f p then RArg i else ccall f g' (S i)
  | CD h ps id :: g' => if String.eqb f h then RDef ps id i else ccall f g' i
  end.

Definition bodyctx (f:string) (ps: list string) (id:nat) (g:ctx) : ctx :=
  rev (map CA ps) ++ CD f ps id :: g.

(* compile g b t = (code, defs emitted starting at table offset b) *)
Fixpoint compile (g:ctx) (b:nat) (t:term) {struct t} : iterm * list iterm :=
  match t with
  | Id => (IId, [])
  | Lit z => (ILit z, [])
  | Comma x y => let '(x', dx) := compile g b x in
                 let '(y', dy) := compile g (b + List.length dx) y in (IComma x' y', dx ++ dy)
  | As x v y => let '(x', dx) := compile g b x in
                let '(y', dy) := compile (CV v :: g) (b + List.length dx) y in (IAs x' y', dx ++ dy)
  | Var x => (match cvar x g 0 with Some i => IVar i | None => IFail end, [])
  | Def f ps body rest =>
      let '(body', db) := compile (bodyctx f ps b g) (S b) body in
      let '(rest', dr) := compile (CD f ps b :: g) (S b + List.length db) rest in
      (rest', body' :: db ++ dr)
  | Call f args =>
      let fix cargs (b:nat) (l: list term) : list iterm * list iterm :=
        match l with
        | [] => ([], [])
        | a :: l' => let '(a', da) := compile g b a in
                     let '(l'', dl) := cargs (b + List.length da) l' in (a' :: l'', da ++ dl)
        end in
      let '(args', d) := cargs b args in
      match ccall f g 0 with
      | RArg i => (match args with [] => IArg i | _ => IFail end, d)
      | RDef ps id skip => (if Nat.eqb (List.length ps) (List.length args) then ICall id args' skip else IFail, d)
      | RNone => (IFail, d)
      end
  end.

(* test *)
Definition prog := Def "rec" ["f"] (Comma (Call "f" []) (Call "rec" [Call "f" []]))
                    (As (Lit 5) "x" (Call "rec" [Comma (Var "x") Id])).
Fixpoint take (k:nat) (s: str) : list Z := match k, s with S k, SCons x t => x :: take k (t tt) | _, _ => [] end.
Eval vm_compute in take 5 (sem 20 prog [] 1%Z).
Eval vm_compute in let '(c,d) := compile [] 0 prog in take 5 (run d 20 c [] 1%Z).

(* ---------- correctness ---------- *)
Definition located (table: list iterm) (b:nat) (d: list iterm) : Prop :=
  forall i x, nth_error d i = Some x -> nth_error table (b + i) = Some x.

Lemma located_app table b d1 d2 :
  located table b (d1 ++ d2) -> located table b d1 /\ located table (b + List.length d1) d2.
Proof.
  intros H; split; intros i x Hi.
  - apply H. rewrite nth_error_app1; auto. apply nth_error_Some; congruence.
  - replace (b + List.length d1 + i) with (b + (List.length d1 + i)) by lia. apply H.
    rewrite nth_error_app2 by lia. replace (List.length d1 + i - List.length d1) with i by lia. auto.
Qed.

Lemma located_cons table b x d :
  located table b (x :: d) -> nth_error table b = Some x /\ located table (S b) d.
Proof.
  intros H; split.
  - specialize (H 0 x eq_refl). now rewrite Nat.add_0_r in H.
  - intros i y Hi. replace (S b + i) with (b + S i) by lia. apply H. exact Hi.
Qed.

Section Correct.
Variable table : list iterm.

Inductive rel : ctx -> nenv -> ienv -> Prop :=
| rel_nil : rel [] [] []
| rel_var x z g r s : rel g r s -> rel (CV x :: g) ((x, NVar z) :: r) (IV z :: s)
| rel_arg p t r' g' s' b g r s :
    rel g' r' s' -> located table b (snd (compile g' b t)) -> rel g r s ->
    rel (CA p :: g) ((p, NFun t r') :: r) (IF (fst (compile g' b t)) s' :: s)
| rel_def f ps body id g r s :
    rel g r s ->
    nth_error table id = Some (fst (compile (bodyctx f ps id g) (S id) body)) ->
    located table (S id) (snd (compile (bodyctx f ps id g) (S id) body)) ->
    rel (CD f ps id :: g) ((f, NDef ps body) :: r) s.


Lemma cvar_ok g r s : rel g r s -> forall x k,
  match nlookupv x r with
  | Some z => exists i, cvar x g k = Some (k + i) /\ nth_error s i = Some (IV z)
  | None => cvar x g k = None end.
Proof.
  induction 1 as [|y z g r s H IH|p t r' g' s' b g r s H1 IH1 Hl H2 IH2|f ps body id g r s H IH Hn Hl]; intros x k; cbn.
  - reflexivity.
  - destruct (String.eqb x y).
    + exists 0. now rewrite Nat.add_0_r.
    + specialize (IH x (S k)). destruct (nlookupv x r).
      * destruct IH as (i & A & B). exists (S i). split; [rewrite A; f_equal; lia|exact B].
      * exact IH.
  - specialize (IH2 x (S k)). destruct (nlookupv x r).
    + destruct IH2 as (i & A & B). exists (S i). split; [rewrite A; f_equal; lia|exact B].
    + exact IH2.
  - apply IH.
Qed.

Definition defok (f:string) (ps:list string) (body:term) (id:nat) (g:ctx) : Prop :=
  nth_error table id = Some (fst (compile (bodyctx f ps id g) (S id) body)) /\
  located table (S id) (snd (compile (bodyctx f ps id g) (S id) body)).

Lemma ccall_ok g r s : rel g r s -> forall f k,
  match nlookupf f r with
  | Some (NFun t r', _) => exists i g' s' b, ccall f g k = RArg (k + i) /\
        nth_error s i = Some (IF (fst (compile g' b t)) s') /\ rel g' r' s' /\ located table b (snd (compile g' b t))
  | Some (NDef ps body, rf) => exists i id gf, ccall f g k = RDef ps id (k + i) /\
        rel (CD f ps id :: gf) rf (skipn i s) /\ defok f ps body id gf
  | Some (NVar _, _) => False
  | None => ccall f g k = RNone end.
Proof.
  induction 1 as [|y z g r s H IH|p t r' g' s' b g r s H1 IH1 Hl H2 IH2|h ps body id g r s H IH Hn Hl]; intros f k; cbn.
  - reflexivity.
  - specialize (IH f (S k)). destruct (nlookupf f r) as [[[z'|t r'|ps body] rf]|].
    + exact IH.
    + destruct IH as (i & g' & s' & b & A & B & C & D). exists (S i), g', s', b. split; [rewrite A; f_equal; lia|repeat split; auto].
    + destruct IH as (i & id & gf & A & B & C). exists (S i), id, gf. split; [rewrite A; f_equal; lia|cbn; repeat split; auto; apply C].
    + exact IH.
  - destruct (String.eqb f p) eqn:E.
    + exists 0, g', s', b. rewrite Nat.add_0_r. repeat split; auto.
    + specialize (IH2 f (S k)). destruct (nlookupf f r) as [[[z'|t0 r0|ps body] rf]|].
      * exact IH2.
      * destruct IH2 as (i & g0 & s0 & b0 & A & B & C & D). exists (S i), g0, s0, b0. split; [rewrite A; f_equal; lia|repeat split; auto].
      * destruct IH2 as (i & id & gf & A & B & C). exists (S i), id, gf. split; [rewrite A; f_equal; lia|cbn; repeat split; auto; apply C].
      * exact IH2.
  - destruct (String.eqb f h) eqn:E.
    + apply String.eqb_eq in E; subst h. exists 0, id, g. rewrite Nat.add_0_r. split; [reflexivity|]. split; [cbn; constructor; auto|split; auto].
    + specialize (IH f k). destruct (nlookupf f r) as [[[z'|t0 r0|ps0 body0] rf]|]; exact IH.
Qed.
End Correct.

(* ---- main theorem ---- *)
Fixpoint cargs (g:ctx) (b:nat) (l: list term) : list iterm * list iterm :=
  match l with
  | [] => ([], [])
  | a :: l' => let '(a', da) := compile g b a in
               let '(l'', dl) := cargs g (b + List.length da) l' in (a' :: l'', da ++ dl)
  end.

Lemma compile_call g b f args :
  compile g b (Call f args) =
  let '(args', d) := cargs g b args in
  match ccall f g 0 with
  | RArg i => (match args with [] => IArg i | _ => IFail end, d)
  | RDef ps id skip => (if Nat.eqb (List.length ps) (List.length args) then ICall id args' skip else IFail, d)
  | RNone => (IFail, d)
  end.
Proof.
  cbn [compile].
  assert (E: forall b l, (fix cargs (b0 : nat) (l0 : list term) {struct l0} : list iterm * list iterm :=
            match l0 with
            | [] => ([], [])
            | a :: l' => let '(a', da) := compile g b0 a in
                         let '(l'', dl) := cargs (b0 + List.length da) l' in (a' :: l'', da ++ dl)
            end) b l = cargs g b l).
  { intros b0 l; revert b0; induction l as [|a l IH]; intros b0; cbn; auto.
    destruct (compile g b0 a). rewrite IH. reflexivity. }
  rewrite E. reflexivity.
Qed.

Section Main.
Variable table : list iterm.

(* closures built from compiled args are related *)
Lemma rel_args g r s : rel table g r s -> forall args b ps G R S,
  located table b (snd (cargs g b args)) ->
  List.length ps = List.length args ->
  rel table G R S ->
  rel table (rev (map CA ps) ++ G)
      (rev (combine ps (map (fun a => NFun a r) args)) ++ R)
      (rev (map (fun a => IF a s) (fst (cargs g b args))) ++ S).
Proof.
  intros Hrel args; induction args as [|a args IH]; intros b ps G R S Hloc Hlen HG.
  - destruct ps; [|discriminate]. cbn. exact HG.
  - destruct ps as [|p ps]; [discriminate|]. cbn in Hlen. injection Hlen as Hlen.
    cbn [cargs] in *. destruct (compile g b a) as [a' da] eqn:Ea.
    destruct (cargs g (b + List.length da) args) as [l' dl] eqn:El.
    cbn [fst snd] in *. apply located_app in Hloc. destruct Hloc as [L1 L2].
    cbn [map combine rev]. rewrite <- !app_assoc. cbn [app].
    specialize (IH (b + List.length da) ps (CA p :: G) ((p, NFun a r) :: R) (IF a' s :: S)).
    rewrite El in IH. cbn [fst snd] in IH. apply IH; auto.
    replace a' with (fst (compile g b a)) by (rewrite Ea; reflexivity).
    apply rel_arg; auto. rewrite Ea. exact L1.
Qed.


(* characterising equations *)
Lemma run_id n s v : run table n IId s v = sone v. Proof. destruct n; reflexivity. Qed.
Lemma run_lit n z s v : run table n (ILit z) s v = sone z. Proof. destruct n; reflexivity. Qed.
Lemma run_comma n a b s v : run table n (IComma a b) s v = sapp (run table n a s v) (fun _ => run table n b s v).
Proof. destruct n; reflexivity. Qed.
Lemma run_as n a b s v : run table n (IAs a b) s v = sbind (run table n a s v) (fun y => run table n b (IV y :: s) v).
Proof. destruct n; reflexivity. Qed.
Lemma run_var n i s v : run table n (IVar i) s v = match nth_error s i with Some (IV z) => sone z | _ => SExn end.
Proof. destruct n; reflexivity. Qed.
Lemma run_fail n s v : run table n IFail s v = SExn. Proof. destruct n; reflexivity. Qed.
Lemma run_call n id args skip s v : run table n (ICall id args skip) s v =
  match n with 0 => SBot | S n' => match nth_error table id with
     | Some body => run table n' body (rev (map (fun a => IF a s) args) ++ skipn skip s) v | None => SExn end end.
Proof. destruct n; reflexivity. Qed.
Lemma run_arg n i s v : run table n (IArg i) s v =
  match n with 0 => SBot | S n' => match nth_error s i with Some (IF t s') => run table n' t s' v | _ => SExn end end.
Proof. destruct n; reflexivity. Qed.

Lemma sem_id n r v : sem n Id r v = sone v. Proof. destruct n; reflexivity. Qed.
Lemma sem_lit n z r v : sem n (Lit z) r v = sone z. Proof. destruct n; reflexivity. Qed.
Lemma sem_comma n a b r v : sem n (Comma a b) r v = sapp (sem n a r v) (fun _ => sem n b r v).
Proof. destruct n; reflexivity. Qed.
Lemma sem_as n a x b r v : sem n (As a x b) r v = sbind (sem n a r v) (fun y => sem n b ((x, NVar y) :: r) v).
Proof. destruct n; reflexivity. Qed.
Lemma sem_var n x r v : sem n (Var x) r v = match nlookupv x r with Some z => sone z | None => SExn end.
Proof. destruct n; reflexivity. Qed.
Lemma sem_def n f ps body rest r v : sem n (Def f ps body rest) r v = sem n rest ((f, NDef ps body) :: r) v.
Proof. destruct n; reflexivity. Qed.
Lemma sem_call n f args r v : sem n (Call f args) r v =
      match nlookupf f r with
      | Some (NDef ps body, rf) =>
          if Nat.eqb (List.length ps) (List.length args) then
            match n with 0 => SBot | S n' => sem n' body (nbindargs ps args r ++ rf) v end
          else SExn
      | Some (NFun t r', _) =>
          match args with [] => match n with 0 => SBot | S n' => sem n' t r' v end | _ => SExn end
      | _ => SExn
      end.
Proof. destruct n; reflexivity. Qed.

Theorem compile_correct : forall n t g b r s v,
  rel table g r s -> located table b (snd (compile g b t)) ->
  run table n (fst (compile g b t)) s v = sem n t r v.
Proof.
  induction n as [n IHn] using lt_wf_ind.
  induction t as [|z|x IHx y IHy|x IHx v0 y IHy|x|f ps body IHb rest IHr|f args]; intros g b r s v Hrel Hloc.
  - cbn [compile fst]. now rewrite run_id, sem_id.
  - cbn [compile fst]. now rewrite run_lit, sem_lit.
  - cbn [compile] in *. destruct (compile g b x) as [x' dx] eqn:Ex.
    destruct (compile g (b + List.length dx) y) as [y' dy] eqn:Ey. cbn [fst snd] in *.
    apply located_app in Hloc. destruct Hloc as [L1 L2].
    specialize (IHx g b r s v Hrel). rewrite Ex in IHx. specialize (IHx L1).
    specialize (IHy g (b + List.length dx) r s v Hrel). rewrite Ey in IHy. specialize (IHy L2).
    cbn [fst] in *. rewrite run_comma, sem_comma, IHx. f_equal. apply functional_extensionality; intros _; exact IHy.
  - cbn [compile] in *. destruct (compile g b x) as [x' dx] eqn:Ex.
    destruct (compile (CV v0 :: g) (b + List.length dx) y) as [y' dy] eqn:Ey. cbn [fst snd] in *.
    apply located_app in Hloc. destruct Hloc as [L1 L2].
    specialize (IHx g b r s v Hrel). rewrite Ex in IHx. specialize (IHx L1). cbn [fst] in IHx.
    assert (Hy: forall z, run table n y' (IV z :: s) v = sem n y ((v0, NVar z) :: r) v).
    { intros z. specialize (IHy (CV v0 :: g) (b + List.length dx) ((v0, NVar z) :: r) (IV z :: s) v).
      rewrite Ey in IHy. apply IHy; auto. constructor; auto. }
    rewrite run_as, sem_as, IHx. f_equal. apply functional_extensionality; intros z; apply Hy.
  - cbn [compile fst]. pose proof (cvar_ok table g r s Hrel x 0) as H. rewrite sem_var.
    destruct (nlookupv x r) as [z|] eqn:E.
    + destruct H as (i & A & B). rewrite A. cbn [Nat.add]. rewrite run_var, B. reflexivity.
    + rewrite H. apply run_fail.
  - cbn [compile] in *. destruct (compile (bodyctx f ps b g) (S b) body) as [body' db] eqn:Eb.
    destruct (compile (CD f ps b :: g) (S b + List.length db) rest) as [rest' dr] eqn:Er. cbn [fst snd] in *.
    apply located_cons in Hloc. destruct Hloc as [Lb L]. apply located_app in L. destruct L as [L1 L2].
    specialize (IHr (CD f ps b :: g) (S b + List.length db) ((f, NDef ps body) :: r) s v).
    rewrite Er in IHr. cbn [fst snd] in IHr.
    assert (R: rel table (CD f ps b :: g) ((f, NDef ps body) :: r) s).
    { constructor; auto; rewrite Eb; auto. }
    rewrite sem_def. exact (IHr R L2).
  - rewrite compile_call in *. destruct (cargs g b args) as [args' d] eqn:Ea.
    assert (Hd: located table b d).
    { destruct (ccall f g 0); cbn [snd] in Hloc; auto. }
    clear Hloc.
    pose proof (ccall_ok table g r s Hrel f 0) as H. rewrite sem_call.
    destruct (nlookupf f r) as [[[z|t0 r0|ps body] rf]|] eqn:El.
    + destruct H.
    + destruct H as (i & g' & s' & b' & A & B & C & D). rewrite A. cbn [Nat.add].
      destruct args as [|a args]; cbn [fst].
      * rewrite run_arg. destruct n as [|n']; [reflexivity|]. rewrite B. apply IHn; auto.
      * apply run_fail.
    + destruct H as (i & id & gf & A & B & [C1 C2]). rewrite A. cbn [Nat.add].
      destruct (Nat.eqb (List.length ps) (List.length args)) eqn:El2; cbn [fst].
      * rewrite run_call. destruct n as [|n']; [reflexivity|]. rewrite C1.
        apply Nat.eqb_eq in El2.
        apply IHn; auto.
        pose proof (rel_args g r s Hrel args b ps (CD f ps id :: gf) rf (skipn i s)) as RA.
        rewrite Ea in RA. cbn [fst snd] in RA. apply RA; auto.
      * apply run_fail.
    + rewrite H. apply run_fail.
Qed.
End Main.
Print Assumptions compile_correct.
