From Coq Require Import List ZArith Lia.
Import ListNotations.
Section S.
Variable V E : Type.
Inductive str := SNil | SCons (x : V) (k : unit -> str) | SExn (e : E) | SBot.

Fixpoint sapp (s : str) (r : unit -> str) : str :=
  match s with
  | SNil => r tt
  | SCons x k => SCons x (fun _ => sapp (k tt) r)
  | SExn e => SExn e
  | SBot => SBot
  end.

Fixpoint sbind (s : str) (f : V -> str) : str :=
  match s with
  | SNil => SNil
  | SCons x k => sapp (f x) (fun _ => sbind (k tt) f)
  | SExn e => SExn e
  | SBot => SBot
  end.

(* approximation order *)
Inductive le : str -> str -> Prop :=
| le_bot s : le SBot s
| le_nil : le SNil SNil
| le_exn e : le (SExn e) (SExn e)
| le_cons x k k' : le (k tt) (k' tt) -> le (SCons x k) (SCons x k').

Lemma le_refl s : le s s.
Proof. induction s as [|x k IH|e|]; constructor. apply IH. Qed.

Lemma le_trans a b c : le a b -> le b c -> le a c.
Proof.
  intros H; revert c; induction H; intros c Hc; try (inversion Hc; subst; constructor; auto); try constructor.
Qed.

Lemma sapp_mono s s' r r' : le s s' -> (le (r tt) (r' tt)) -> le (sapp s r) (sapp s' r').
Proof.
  intros H Hr; induction H; cbn; try constructor; auto.
Qed.

Lemma sbind_mono s s' f f' : le s s' -> (forall x, le (f x) (f' x)) -> le (sbind s f) (sbind s' f').
Proof.
  intros H Hf; induction H; cbn; try constructor.
  apply sapp_mono; auto.
Qed.

(* observation: first k items *)
Fixpoint take (k : nat) (s : str) : list V * option (option E) (* None = cut/bot, Some None = end *) :=
  match k, s with
  | _, SNil => ([], Some None)
  | _, SExn e => ([], Some (Some e))
  | _, SBot => ([], None)
  | O, SCons _ _ => ([], None)
  | S k, SCons x t => let '(l, e) := take k (t tt) in (x :: l, e)
  end.
End S.
Check sbind_mono.
